From H2T Require Import Base Tagged Wrap Sub Css Dom Render Api Proofs.Small.
(* Props/C15.v -- options (model level): a maximum wrap width at least the width gives the
   same wrapping width as no maximum. *)
Theorem c15_maxwrap_noop : forall s m o,
  wrapping s = None -> sopts s = o -> 1 <= swidth_ s -> swidth_ s <= m ->
  wrap_width o = Some m ->
  wwidth (get_wrapping s) = swidth_ s.
Proof. exact get_wrapping_maxwrap_noop. Qed.
Print Assumptions c15_maxwrap_noop.

From H2T Require Import Proofs.WrapInv Proofs.OptionRel.
(* WrappedBlock layer: padding only appends trailing spaces (the same lines, each extended
   with made spaces to the block width; same outcome kind) *)
Theorem c15_pad_only_trailing_spaces : forall W cs, 1 <= W ->
  match run W false false cs, run W true false cs with
  | Ok ls, Ok lsp => Forall2 (is_pad_of W) lsp ls
  | TooNarrow, TooNarrow => True
  | _, _ => False
  end.
Proof. exact OptionRel.c15_pad_only_trailing_spaces. Qed.
Print Assumptions c15_pad_only_trailing_spaces.
Theorem c15_same_line_count : forall W ovf cs ls lsp, 1 <= W ->
  run W false ovf cs = Ok ls -> run W true ovf cs = Ok lsp -> length lsp = length ls.
Proof. exact OptionRel.c15_same_line_count. Qed.
Print Assumptions c15_same_line_count.

(* ---------- whole renderer (Proofs/Compose.v): a maximum wrap width >= the width changes nothing (overflow off) ---------- *)
From H2T Require Import Sub Css Dom Render Api Proofs.WrapInv Proofs.RenderWidth Proofs.Compose.
Theorem c15_maxwrap_noop_render :
  forall (d : deco) (mw : N) (o1 o2 : ropts) (m width : N) (tree : rnode),
       wrap_width o1 = None ->
       wrap_width o2 = Some m ->
       same_but_wrap o1 o2 ->
       o_allow_overflow o1 = false ->
       width <= m ->
       res_rel (fun s1 s2 : subr => s2 = reopt s1 o2 /\ sub_into_lines s2 = sub_into_lines s1)
         (render_tree d mw o1 width tree) (render_tree d mw o2 width tree).
Proof. exact Compose.c15_maxwrap_noop_render. Qed.
Print Assumptions c15_maxwrap_noop_render.

Theorem c15_lines_from_read :
  forall (inl : list (text * text) -> res (list styledecl)) (dr : list node -> res (list ruleset))
         (c : config) (doc : list node) (w m : N),
       c_max_wrap c = None ->
       c_overflow c = false ->
       w <= m -> lines_from_read inl dr (set_max_wrap c m) doc w = lines_from_read inl dr c doc w.
Proof. exact Compose.c15_lines_from_read. Qed.
Print Assumptions c15_lines_from_read.

Theorem c15_string_from_read :
  forall (inl : list (text * text) -> res (list styledecl)) (dr : list node -> res (list ruleset))
         (c : config) (doc : list node) (w m : N),
       c_max_wrap c = None ->
       c_overflow c = false ->
       w <= m -> string_from_read inl dr (set_max_wrap c m) doc w = string_from_read inl dr c doc w.
Proof. exact Compose.c15_string_from_read. Qed.
Print Assumptions c15_string_from_read.


(* ---------- no_table_borders / raw_mode draw no box character; footnotes off: no reference, no list (Proofs/NoBoxChars.v). is_box = U+2500..U+257F; boxp/pfoot = renderer-made characters of that class; tree_cl = no text, alt, src, target or CSS content string of the tree contains one ---------- *)
From H2T Require Import Base Tagged Wrap Sub Css Dom Render Api CssParse Proofs.CssTotal Proofs.WrapInv Proofs.RenderWidth Proofs.Conserve Proofs.Footnotes Proofs.AnnBalance Proofs.RenderConserve Proofs.OptionRel Proofs.Compose Proofs.RenderTotal Proofs.FragStream Proofs.SimRel Proofs.Prune Proofs.NoBoxChars.
Theorem c15_no_borders_render_tree :
  forall (d : deco) (mw : N) (o : ropts) (width : N) (tree : rnode) (s : subr) (ls : list rline),
       deco_cl boxp d ->
       tree_cl boxp (o_footnotes o) tree = true ->
       o_borders o = false ->
       render_tree d mw o width tree = Ok s ->
       sub_into_lines s = Ok ls ->
       Forall (fun l : rline => exists tl : tline, l = RText tl) ls /\ nobox (flat_map rline_string ls).
Proof. exact NoBoxChars.c15_no_borders_render_tree. Qed.
Print Assumptions c15_no_borders_render_tree.

Theorem c15_no_borders_into_string :
  forall (d : deco) (mw : N) (o : ropts) (width : N) (tree : rnode) (s : subr) (t : text),
       deco_cl boxp d ->
       tree_cl boxp (o_footnotes o) tree = true ->
       o_borders o = false -> render_tree d mw o width tree = Ok s -> sub_into_string s = Ok t -> nobox t.
Proof. exact NoBoxChars.c15_no_borders_into_string. Qed.
Print Assumptions c15_no_borders_into_string.

Theorem c15_string_from_read_no_borders :
  forall (ist : list (text * text) -> res (list styledecl)) (dr : list node -> res (list ruleset))
         (c : config) (doc : list node) (width : N) (tree : rnode) (t : text),
       deco_cl boxp (c_deco c) ->
       c_borders c = false ->
       to_render_tree ist dr c doc = Ok tree ->
       tree_cl boxp (c_footnotes c) tree = true -> string_from_read ist dr c doc width = Ok t -> nobox t.
Proof. exact NoBoxChars.c15_string_from_read_no_borders. Qed.
Print Assumptions c15_string_from_read_no_borders.

Theorem c15_lines_from_read_no_borders :
  forall (ist : list (text * text) -> res (list styledecl)) (dr : list node -> res (list ruleset))
         (c : config) (doc : list node) (width : N) (tree : rnode) (tls : list tline),
       deco_cl boxp (c_deco c) ->
       c_borders c = false ->
       to_render_tree ist dr c doc = Ok tree ->
       tree_cl boxp (c_footnotes c) tree = true ->
       lines_from_read ist dr c doc width = Ok tls -> nobox (flat_map tl_string tls).
Proof. exact NoBoxChars.c15_lines_from_read_no_borders. Qed.
Print Assumptions c15_lines_from_read_no_borders.

Theorem c15_string_from_read_raw :
  forall (ist : list (text * text) -> res (list styledecl)) (dr : list node -> res (list ruleset))
         (c0 : config) (raw : bool) (doc : list node) (width : N) (tree : rnode) 
         (t : text),
       deco_cl boxp (c_deco c0) ->
       to_render_tree ist dr (set_raw c0 raw) doc = Ok tree ->
       tree_cl boxp (c_footnotes c0) tree = true ->
       string_from_read ist dr (set_raw c0 raw) doc width = Ok t -> nobox t.
Proof. exact NoBoxChars.c15_string_from_read_raw. Qed.
Print Assumptions c15_string_from_read_raw.

Theorem c15_lines_from_read_raw :
  forall (ist : list (text * text) -> res (list styledecl)) (dr : list node -> res (list ruleset))
         (c0 : config) (raw : bool) (doc : list node) (width : N) (tree : rnode) 
         (tls : list tline),
       deco_cl boxp (c_deco c0) ->
       to_render_tree ist dr (set_raw c0 raw) doc = Ok tree ->
       tree_cl boxp (c_footnotes c0) tree = true ->
       lines_from_read ist dr (set_raw c0 raw) doc width = Ok tls -> nobox (flat_map tl_string tls).
Proof. exact NoBoxChars.c15_lines_from_read_raw. Qed.
Print Assumptions c15_lines_from_read_raw.

Theorem deco_cl_box_plain :
  deco_cl boxp plain_deco.
Proof. exact NoBoxChars.deco_cl_box_plain. Qed.
Print Assumptions deco_cl_box_plain.

Theorem deco_cl_box_rich :
  deco_cl boxp rich_deco.
Proof. exact NoBoxChars.deco_cl_box_rich. Qed.
Print Assumptions deco_cl_box_rich.

Theorem deco_cl_box_trivial :
  deco_cl boxp trivial_deco.
Proof. exact NoBoxChars.deco_cl_box_trivial. Qed.
Print Assumptions deco_cl_box_trivial.

Theorem deco_cl_box_custom :
  forall lks lke ems eme sts ste sks ske cds cde ims ime hdr qt ul olsuf : text,
       forallb nb_str [lks; lke; ems; eme; sts; ste; sks; ske; cds; cde; ims; ime; hdr; qt; ul; olsuf] = true ->
       deco_cl boxp (custom_deco lks lke ems eme sts ste sks ske cds cde ims ime hdr qt ul olsuf).
Proof. exact NoBoxChars.deco_cl_box_custom. Qed.
Print Assumptions deco_cl_box_custom.

Theorem c15_footnotes_off_render_tree :
  forall (d : deco) (mw : N) (o : ropts) (width : N) (tree : rnode) (s : subr),
       deco_cl pfoot d ->
       tree_cl pfoot false tree = true ->
       o_footnotes o = false ->
       render_tree d mw o width tree = Ok s ->
       (exists st : rstate,
          render_node d mw tree {| stack := [sub_new width o]; links := [] |} = Ok st /\
          stack st = [s] /\ sub_finalise s (links st) = []) /\
       (forall ls : list rline, sub_into_lines s = Ok ls -> nofoot (flat_map rline_string ls)) /\
       (forall t : text, sub_into_string s = Ok t -> nofoot t).
Proof. exact NoBoxChars.c15_footnotes_off_render_tree. Qed.
Print Assumptions c15_footnotes_off_render_tree.

Theorem c15_string_from_read_footnotes_off :
  forall (ist : list (text * text) -> res (list styledecl)) (dr : list node -> res (list ruleset))
         (c : config) (doc : list node) (width : N) (tree : rnode) (t : text),
       deco_cl pfoot (c_deco c) ->
       c_footnotes c = false ->
       to_render_tree ist dr c doc = Ok tree ->
       tree_cl pfoot false tree = true -> string_from_read ist dr c doc width = Ok t -> nofoot t.
Proof. exact NoBoxChars.c15_string_from_read_footnotes_off. Qed.
Print Assumptions c15_string_from_read_footnotes_off.

Theorem c15_lines_from_read_footnotes_off :
  forall (ist : list (text * text) -> res (list styledecl)) (dr : list node -> res (list ruleset))
         (c : config) (doc : list node) (width : N) (tree : rnode) (tls : list tline),
       deco_cl pfoot (c_deco c) ->
       c_footnotes c = false ->
       to_render_tree ist dr c doc = Ok tree ->
       tree_cl pfoot false tree = true ->
       lines_from_read ist dr c doc width = Ok tls -> nofoot (flat_map tl_string tls).
Proof. exact NoBoxChars.c15_lines_from_read_footnotes_off. Qed.
Print Assumptions c15_lines_from_read_footnotes_off.

Theorem c15_footnotes_same_stream_exact :
  forall (d : deco) (mw : N) (o1 o2 : ropts) (width : N) (tree : rnode) (s1 s2 : subr)
         (ls1 ls2 : list rline),
       prefix_made d ->
       o_raw o2 = o_raw o1 ->
       o_allow_overflow o2 = o_allow_overflow o1 ->
       no_table tree = true \/ o_raw o1 = true ->
       render_tree d mw o1 width tree = Ok s1 ->
       render_tree d mw o2 width tree = Ok s2 ->
       sub_into_lines s1 = Ok ls1 ->
       sub_into_lines s2 = Ok ls2 ->
       filter docp (flat_map rline_string ls1) = filter docp (flat_map rline_string ls2).
Proof. exact NoBoxChars.c15_footnotes_same_stream_exact. Qed.
Print Assumptions c15_footnotes_same_stream_exact.

Theorem c15_footnotes_same_stream :
  forall (d : deco) (mw : N) (o1 o2 : ropts) (width : N) (tree : rnode) (s1 s2 : subr)
         (ls1 ls2 : list rline),
       prefix_made d ->
       o_raw o2 = o_raw o1 ->
       o_allow_overflow o2 = o_allow_overflow o1 ->
       Forall posw (tree_stream d mw o1 tree width) ->
       render_tree d mw o1 width tree = Ok s1 ->
       render_tree d mw o2 width tree = Ok s2 ->
       sub_into_lines s1 = Ok ls1 ->
       sub_into_lines s2 = Ok ls2 ->
       Permutation.Permutation (filter docp (flat_map rline_string ls1))
         (filter docp (flat_map rline_string ls2)).
Proof. exact NoBoxChars.c15_footnotes_same_stream. Qed.
Print Assumptions c15_footnotes_same_stream.

Theorem deco_cl_foot_plain :
  deco_cl pfoot plain_deco.
Proof. exact NoBoxChars.deco_cl_foot_plain. Qed.
Print Assumptions deco_cl_foot_plain.

Theorem deco_cl_foot_rich :
  deco_cl pfoot rich_deco.
Proof. exact NoBoxChars.deco_cl_foot_rich. Qed.
Print Assumptions deco_cl_foot_rich.

Theorem deco_cl_foot_trivial :
  deco_cl pfoot trivial_deco.
Proof. exact NoBoxChars.deco_cl_foot_trivial. Qed.
Print Assumptions deco_cl_foot_trivial.

Theorem deco_cl_foot_custom :
  forall lks lke ems eme sts ste sks ske cds cde ims ime hdr qt ul olsuf : text,
       deco_cl pfoot (custom_deco lks lke ems eme sts ste sks ske cds cde ims ime hdr qt ul olsuf).
Proof. exact NoBoxChars.deco_cl_foot_custom. Qed.
Print Assumptions deco_cl_foot_custom.


(* ---------- pad_block_width only appends trailing spaces, whole renderer (Proofs/PadRel.v); pad_side excludes exactly the two recorded findings: a preserved line break inside pre (pad_blank_pre_line) and tables under allow_width_overflow (pad_overflowing_table_cell) ---------- *)
From H2T Require Import Base Tagged Wrap Sub Css Dom Render Api CssParse Proofs.CssTotal Proofs.WrapInv Proofs.RenderWidth Proofs.Conserve Proofs.Footnotes Proofs.AnnBalance Proofs.RenderConserve Proofs.OptionRel Proofs.Compose Proofs.RenderTotal Proofs.FragStream Proofs.SimRel Proofs.Prune Proofs.PadRel.
Theorem c15_pad_render_tree :
  forall (d : deco) (mw : N) (o1 : ropts) (width : N) (tree : rnode),
       o_pad o1 = false ->
       pad_side d (o_allow_overflow o1) tree = true ->
       res_rel (fun s1 s2 : subr => res_rel (Forall2 rline_pad) (sub_into_lines s1) (sub_into_lines s2))
         (render_tree d mw o1 width tree) (render_tree d mw (with_pad o1) width tree).
Proof. exact PadRel.c15_pad_render_tree. Qed.
Print Assumptions c15_pad_render_tree.

Theorem c15_pad_render_tree_rstrip :
  forall (d : deco) (mw : N) (o1 : ropts) (width : N) (tree : rnode),
       o_pad o1 = false ->
       pad_side d (o_allow_overflow o1) tree = true ->
       res_rel
         (fun rs1 rs2 : list rline =>
          length rs1 = length rs2 /\
          Forall2 (fun a b : list chr => exists k : nat, b = a ++ repeat_chr padc k) 
            (strings rs1) (strings rs2) /\ map rstrip (strings rs1) = map rstrip (strings rs2))
         (do s <- render_tree d mw o1 width tree; sub_into_lines s)
         (do s <- render_tree d mw (with_pad o1) width tree; sub_into_lines s).
Proof. exact PadRel.c15_pad_render_tree_rstrip. Qed.
Print Assumptions c15_pad_render_tree_rstrip.

Theorem c15_pad_lines_from_read :
  forall (inl : list (text * text) -> res (list styledecl)) (dr : list node -> res (list ruleset))
         (c : config) (doc : list node) (w : N),
       c_pad c = false ->
       doc_side inl dr c doc ->
       res_rel (Forall2 line_pad) (lines_from_read inl dr c doc w) (lines_from_read inl dr (set_pad c) doc w).
Proof. exact PadRel.c15_pad_lines_from_read. Qed.
Print Assumptions c15_pad_lines_from_read.

Theorem c15_pad_string_from_read :
  forall (inl : list (text * text) -> res (list styledecl)) (dr : list node -> res (list ruleset))
         (c : config) (doc : list node) (w : N),
       c_pad c = false ->
       doc_side inl dr c doc ->
       res_rel
         (fun t1 t2 : text =>
          exists ls1 ls2 : list text,
            t1 = join_nl ls1 /\
            t2 = join_nl ls2 /\
            length ls1 = length ls2 /\
            Forall2 (fun a b : list chr => exists k : nat, b = a ++ repeat_chr padc k) ls1 ls2 /\
            map rstrip ls1 = map rstrip ls2) (string_from_read inl dr c doc w)
         (string_from_read inl dr (set_pad c) doc w).
Proof. exact PadRel.c15_pad_string_from_read. Qed.
Print Assumptions c15_pad_string_from_read.

Theorem c15_pad_render_tree_nopre :
  forall (d : deco) (mw : N) (o1 : ropts) (width : N) (tree : rnode),
       o_pad o1 = false ->
       o_allow_overflow o1 = false ->
       ol_prefix_monotone d ->
       ol_prefix_sat d ->
       nopre tree = true ->
       res_rel (fun s1 s2 : subr => res_rel (Forall2 rline_pad) (sub_into_lines s1) (sub_into_lines s2))
         (render_tree d mw o1 width tree) (render_tree d mw (with_pad o1) width tree).
Proof. exact PadRel.c15_pad_render_tree_nopre. Qed.
Print Assumptions c15_pad_render_tree_nopre.


(* ---------- unicode strikeout on/off, whole renderer, any overflow setting (Proofs/StrikeRel.v, after fix aa6dbdd): same outcome, same number of lines, same widths; the lines are equal after deleting the marks; ins t1 t2 = t1 is t2 with marks inserted directly after non-whitespace characters of positive width ---------- *)
From H2T Require Import Base Tagged Wrap Sub Css Dom Render Api CssParse Proofs.CssTotal Proofs.WrapInv Proofs.RenderWidth Proofs.Conserve Proofs.Footnotes Proofs.AnnBalance Proofs.RenderConserve Proofs.OptionRel Proofs.Compose Proofs.RenderTotal Proofs.FragStream Proofs.SimRel Proofs.Prune Proofs.StrikeRel.
Theorem c15_strike_render :
  forall (d : deco) (mw : N) (o1 o2 : ropts) (width : N) (tree : rnode),
       same_but_strike o1 o2 ->
       o_strike o2 = false ->
       render_tree d mw o2 width tree <> OutOfFuel ->
       res_rel SR (render_tree d mw o1 width tree) (render_tree d mw o2 width tree).
Proof. exact StrikeRel.c15_strike_render. Qed.
Print Assumptions c15_strike_render.

Theorem c15_strike_lines :
  forall (d : deco) (mw : N) (o1 o2 : ropts) (width : N) (tree : rnode),
       same_but_strike o1 o2 ->
       o_strike o2 = false ->
       lines_of d mw o2 width tree <> OutOfFuel ->
       res_rel (Forall2 RLR) (lines_of d mw o1 width tree) (lines_of d mw o2 width tree).
Proof. exact StrikeRel.c15_strike_lines. Qed.
Print Assumptions c15_strike_lines.

Theorem c15_strike_deleted :
  forall (d : deco) (mw : N) (o1 o2 : ropts) (width : N) (tree : rnode) (mark : chr -> bool),
       mark strike_chr = true ->
       same_but_strike o1 o2 ->
       o_strike o2 = false ->
       lines_of d mw o2 width tree <> OutOfFuel ->
       res_rel (lines_rel mark) (lines_of d mw o1 width tree) (lines_of d mw o2 width tree).
Proof. exact StrikeRel.c15_strike_deleted. Qed.
Print Assumptions c15_strike_deleted.

Theorem c15_strike_deleted_wf :
  forall (d : deco) (mw : N) (o1 o2 : ropts) (width : N) (tree : rnode) (mark : chr -> bool),
       mark strike_chr = true ->
       same_but_strike o1 o2 ->
       o_strike o2 = false ->
       width < usize_max ->
       tree_wf d mw tree = true ->
       res_rel (lines_rel mark) (lines_of d mw o1 width tree) (lines_of d mw o2 width tree).
Proof. exact StrikeRel.c15_strike_deleted_wf. Qed.
Print Assumptions c15_strike_deleted_wf.

Theorem c15_strike_lines_from_read :
  forall (inl : list (text * text) -> res (list styledecl)) (dr : list node -> res (list ruleset))
         (c : config) (doc : list node) (w : N) (mark : chr -> bool),
       mark strike_chr = true ->
       lines_from_read inl dr (set_strike c false) doc w <> OutOfFuel ->
       res_rel (tlines_rel mark) (lines_from_read inl dr c doc w)
         (lines_from_read inl dr (set_strike c false) doc w).
Proof. exact StrikeRel.c15_strike_lines_from_read. Qed.
Print Assumptions c15_strike_lines_from_read.

Theorem c15_strike_string_from_read :
  forall (inl : list (text * text) -> res (list styledecl)) (dr : list node -> res (list ruleset))
         (c : config) (doc : list node) (w : N) (mark : chr -> bool),
       mark strike_chr = true ->
       string_from_read inl dr (set_strike c false) doc w <> OutOfFuel ->
       res_rel (string_rel mark) (string_from_read inl dr c doc w)
         (string_from_read inl dr (set_strike c false) doc w).
Proof. exact StrikeRel.c15_strike_string_from_read. Qed.
Print Assumptions c15_strike_string_from_read.

Theorem c15_strike_routes_wf :
  forall (inl : list (text * text) -> res (list styledecl)) (dr : list node -> res (list ruleset))
         (c : config) (doc : list node) (w : N) (tree : rnode) (mark : chr -> bool),
       mark strike_chr = true ->
       w < usize_max ->
       to_render_tree inl dr c doc = Ok tree ->
       tree_wf (c_deco c) (c_min_wrap c) tree = true ->
       res_rel (tlines_rel mark) (lines_from_read inl dr c doc w)
         (lines_from_read inl dr (set_strike c false) doc w) /\
       res_rel (string_rel mark) (string_from_read inl dr c doc w)
         (string_from_read inl dr (set_strike c false) doc w).
Proof. exact StrikeRel.c15_strike_routes_wf. Qed.
Print Assumptions c15_strike_routes_wf.


(* ---------- no_link_wrapping and min_wrap_width, whole renderer (Proofs/LinkWrapRel.v): the body never reads o_wrap_links; the footnote list is one line per entry without wrapping and, with it, each entry cut into consecutive pieces that concatenate to it (each at most the width, or one character wider than the width: the recorded C02 finding); min_wrap_width does not apply to flat trees, and cannot change a successful table-free render without overflow ---------- *)
From H2T Require Import Base Tagged Wrap Sub Css Dom Render Api CssParse Proofs.CssTotal Proofs.WrapInv Proofs.RenderWidth Proofs.Conserve Proofs.Footnotes Proofs.AnnBalance Proofs.RenderConserve Proofs.OptionRel Proofs.Compose Proofs.RenderTotal Proofs.FragStream Proofs.SimRel Proofs.Prune Proofs.LinkWrapRel.
Theorem nlw_render_node :
  forall (d : deco) (mw : N) (n : rnode) (s : subr) (rest1 rest2 : list subr) (lk : list text),
       res_rel
         (fun a b : rstate =>
          links a = links b /\ (exists s' : subr, stack a = s' :: rest1 /\ stack b = rw s' :: rest2))
         (render_node d mw n {| stack := s :: rest1; links := lk |})
         (render_node d mw n {| stack := rw s :: rest2; links := lk |}).
Proof. exact LinkWrapRel.nlw_render_node. Qed.
Print Assumptions nlw_render_node.

Theorem fmt_links_wrap_rel :
  forall (ls : list tline) (s : subr),
       ptxt s = [] ->
       exists new1 new2 : list rline,
         slines (fmt_links s ls) = slines s ++ new1 /\
         slines (fmt_links (rw s) ls) = slines s ++ new2 /\
         wrapping (fmt_links s ls) = wrapping s /\
         wrapping (fmt_links (rw s) ls) = wrapping s /\
         entry_groups (map entry_text ls) [] new1 /\
         map rline_string new2 = map entry_text ls /\
         Forall pairs_ok new1 /\
         Forall pairs_ok new2 /\
         (o_wrap_links (sopts s) = true -> Forall (width_ok (swidth_ s)) new1) /\
         (length new2 <= length new1)%nat /\ flat_map rline_string new1 = flat_map rline_string new2.
Proof. exact LinkWrapRel.fmt_links_wrap_rel. Qed.
Print Assumptions fmt_links_wrap_rel.

Theorem nlw_render_tree :
  forall (d : deco) (mw : N) (o : ropts) (width : N) (tree : rnode),
       res_rel (nlw_rel d mw o width tree) (render_tree d mw o width tree)
         (render_tree d mw (nowl o) width tree).
Proof. exact LinkWrapRel.nlw_render_tree. Qed.
Print Assumptions nlw_render_tree.

Theorem nlw_lines :
  forall (d : deco) (mw : N) (o : ropts) (width : N) (tree : rnode),
       res_rel (fun ls1 ls2 : list rline => lines_rel ls1 ls2 /\ (no_list d mw o width tree -> ls1 = ls2))
         (do s <- render_tree d mw o width tree; sub_into_lines s)
         (do s <- render_tree d mw (nowl o) width tree; sub_into_lines s).
Proof. exact LinkWrapRel.nlw_lines. Qed.
Print Assumptions nlw_lines.

Theorem nlw_string :
  forall (d : deco) (mw : N) (o : ropts) (width : N) (tree : rnode),
       res_rel (fun t1 t2 : text => string_rel t1 t2 /\ (no_list d mw o width tree -> t1 = t2))
         (do s <- render_tree d mw o width tree; sub_into_string s)
         (do s <- render_tree d mw (nowl o) width tree; sub_into_string s).
Proof. exact LinkWrapRel.nlw_string. Qed.
Print Assumptions nlw_string.

Theorem nlw_lines_from_read :
  forall (inl : list (text * text) -> res (list styledecl)) (dr : list node -> res (list ruleset))
         (c : config) (doc : list node) (w : N),
       res_rel (fun t1 t2 : list tline => tlines_rel t1 t2 /\ (doc_no_list inl dr c doc -> t1 = t2))
         (lines_from_read inl dr c doc w) (lines_from_read inl dr (set_no_link_wrap c) doc w).
Proof. exact LinkWrapRel.nlw_lines_from_read. Qed.
Print Assumptions nlw_lines_from_read.

Theorem nlw_string_from_read :
  forall (inl : list (text * text) -> res (list styledecl)) (dr : list node -> res (list ruleset))
         (c : config) (doc : list node) (w : N),
       res_rel (fun t1 t2 : text => string_rel t1 t2 /\ (doc_no_list inl dr c doc -> t1 = t2))
         (string_from_read inl dr c doc w) (string_from_read inl dr (set_no_link_wrap c) doc w).
Proof. exact LinkWrapRel.nlw_string_from_read. Qed.
Print Assumptions nlw_string_from_read.

Theorem nlw_routes_unchanged :
  forall (inl : list (text * text) -> res (list styledecl)) (dr : list node -> res (list ruleset))
         (c : config) (doc : list node) (w : N),
       doc_no_list inl dr c doc ->
       lines_from_read inl dr (set_no_link_wrap c) doc w = lines_from_read inl dr c doc w /\
       string_from_read inl dr (set_no_link_wrap c) doc w = string_from_read inl dr c doc w.
Proof. exact LinkWrapRel.nlw_routes_unchanged. Qed.
Print Assumptions nlw_routes_unchanged.

Theorem minwrap_flat :
  forall (d : deco) (mw1 mw2 : N) (o : ropts) (width : N) (tree : rnode),
       flat tree = true -> render_tree d mw1 o width tree = render_tree d mw2 o width tree.
Proof. exact LinkWrapRel.minwrap_flat. Qed.
Print Assumptions minwrap_flat.

Theorem minwrap_both_ok :
  forall (d : deco) (mw1 mw2 : N) (o : ropts) (width : N) (tree : rnode) (s1 s2 : subr),
       no_table tree = true ->
       o_allow_overflow o = false ->
       render_tree d mw1 o width tree = Ok s1 -> render_tree d mw2 o width tree = Ok s2 -> s1 = s2.
Proof. exact LinkWrapRel.minwrap_both_ok. Qed.
Print Assumptions minwrap_both_ok.

Theorem minwrap_routes_flat :
  forall (inl : list (text * text) -> res (list styledecl)) (dr : list node -> res (list ruleset))
         (c : config) (doc : list node) (w m : N),
       (forall tree : rnode, to_render_tree inl dr c doc = Ok tree -> flat tree = true) ->
       lines_from_read inl dr (set_min_wrap c m) doc w = lines_from_read inl dr c doc w /\
       string_from_read inl dr (set_min_wrap c m) doc w = string_from_read inl dr c doc w.
Proof. exact LinkWrapRel.minwrap_routes_flat. Qed.
Print Assumptions minwrap_routes_flat.

Theorem minwrap_routes_both_ok :
  forall (inl : list (text * text) -> res (list styledecl)) (dr : list node -> res (list ruleset))
         (c : config) (doc : list node) (w m : N),
       (forall tree : rnode, to_render_tree inl dr c doc = Ok tree -> no_table tree = true) ->
       c_overflow c = false ->
       (forall r1 r2 : list tline,
        lines_from_read inl dr (set_min_wrap c m) doc w = Ok r1 ->
        lines_from_read inl dr c doc w = Ok r2 -> r1 = r2) /\
       (forall r1 r2 : text,
        string_from_read inl dr (set_min_wrap c m) doc w = Ok r1 ->
        string_from_read inl dr c doc w = Ok r2 -> r1 = r2).
Proof. exact LinkWrapRel.minwrap_routes_both_ok. Qed.
Print Assumptions minwrap_routes_both_ok.


(* ---------- max_wrap_width(m) limits text lines to m columns beyond their prefixes (Proofs/MaxWrapBound.v): table-free trees, overflow off; pchain = largest total prefix width of a chain of nested blocks; m = 0 behaves as 1; the footnote list is wrapped at the width, not at m (body/foot split) ---------- *)
From H2T Require Import Base Tagged Wrap Sub Css Dom Render Api CssParse Proofs.CssTotal Proofs.WrapInv Proofs.RenderWidth Proofs.Conserve Proofs.Footnotes Proofs.AnnBalance Proofs.RenderConserve Proofs.OptionRel Proofs.Compose Proofs.RenderTotal Proofs.FragStream Proofs.SimRel Proofs.Prune Proofs.OverflowBound Proofs.MaxWrapBound.
Theorem c15_maxwrap_bound :
  forall (d : deco) (mw : N) (o : ropts) (m width : N) (tree : rnode) (s : subr),
       ol_prefix_monotone d ->
       ol_prefix_sat d ->
       o_allow_overflow o = false ->
       o_footnotes o = false ->
       wrap_width o = Some m ->
       1 <= width ->
       no_table tree = true ->
       RenderWidth.tree_ok false 0 tree = true ->
       render_tree d mw o width tree = Ok s ->
       forall ls : list rline,
       sub_into_lines s = Ok ls ->
       forall r : rline, In r ls -> rline_width r <= N.min width (OverflowBound.pchain d tree + N.max m 1).
Proof. exact MaxWrapBound.c15_maxwrap_bound. Qed.
Print Assumptions c15_maxwrap_bound.

Theorem c15_maxwrap_body_bound :
  forall (d : deco) (mw : N) (o : ropts) (m : N) (fn : bool) (L width : N) (tree : rnode) (s : subr),
       ol_prefix_monotone d ->
       ol_prefix_sat d ->
       o_allow_overflow o = false ->
       wrap_width o = Some m ->
       no_table tree = true ->
       RenderWidth.tree_ok fn L tree = true ->
       render_tree d mw o width tree = Ok s ->
       forall ls : list rline,
       sub_into_lines s = Ok ls ->
       exists body foot : list rline,
         ls = body ++ foot /\
         (forall r : rline, In r body -> rline_width r <= OverflowBound.pchain d tree + N.max m 1) /\
         (o_footnotes o = false -> foot = []).
Proof. exact MaxWrapBound.c15_maxwrap_body_bound. Qed.
Print Assumptions c15_maxwrap_body_bound.

Theorem c15_maxwrap_lines_from_read :
  forall (inline_styles : list (text * text) -> res (list styledecl))
         (doc_rules : list node -> res (list ruleset)) (c : config) (doc : list node) 
         (w m : N) (tree : rnode) (ls : list tline),
       ol_prefix_monotone (c_deco c) ->
       ol_prefix_sat (c_deco c) ->
       c_overflow c = false ->
       c_footnotes c = false ->
       c_max_wrap c = Some m ->
       to_render_tree inline_styles doc_rules c doc = Ok tree ->
       no_table tree = true ->
       RenderWidth.tree_ok false 0 tree = true ->
       lines_from_read inline_styles doc_rules c doc w = Ok ls ->
       forall l : tline,
       In l ls -> tl_width_raw l <= N.min w (OverflowBound.pchain (c_deco c) tree + N.max m 1).
Proof. exact MaxWrapBound.c15_maxwrap_lines_from_read. Qed.
Print Assumptions c15_maxwrap_lines_from_read.

Theorem c15_maxwrap_string_from_read :
  forall (inline_styles : list (text * text) -> res (list styledecl))
         (doc_rules : list node -> res (list ruleset)) (c : config) (doc : list node) 
         (w m : N) (tree : rnode) (t : text),
       ol_prefix_monotone (c_deco c) ->
       ol_prefix_sat (c_deco c) ->
       c_overflow c = false ->
       c_footnotes c = false ->
       c_max_wrap c = Some m ->
       to_render_tree inline_styles doc_rules c doc = Ok tree ->
       no_table tree = true ->
       RenderWidth.tree_ok false 0 tree = true ->
       string_from_read inline_styles doc_rules c doc w = Ok t ->
       exists rls : list rline,
         t = flat_map (fun l : rline => rline_string l ++ [newline_chr]) rls /\
         (forall r : rline,
          In r rls -> rline_width r <= N.min w (OverflowBound.pchain (c_deco c) tree + N.max m 1)).
Proof. exact MaxWrapBound.c15_maxwrap_string_from_read. Qed.
Print Assumptions c15_maxwrap_string_from_read.

Theorem sub_renderer_bound :
  forall (d : deco) (mw m : N) (fn : bool) (L : N),
       ol_prefix_monotone d ->
       ol_prefix_sat d ->
       forall (cs : list rnode) (st : rstate) (tp : subr) (w : N) (st2 : rstate) (sub : subr) (st3 : rstate),
       RenderWidth.st_inv fn L st ->
       Forall (fun s : subr => wrap_width (sopts s) = Some m) (stack st) ->
       top st = Ok tp ->
       forallb no_table cs = true ->
       forallb (RenderWidth.tree_ok fn L) cs = true ->
       fold_left (fun (acc : res rstate) (c : rnode) => do s <- acc; render_node d mw c s) cs
         (Ok (push_sub st (new_sub_renderer tp w))) = Ok st2 ->
       pop_sub st2 = Ok (sub, st3) ->
       forall ls : list rline,
       sub_into_lines sub = Ok ls ->
       forall r : rline,
       In r ls -> rline_width r <= N.min w (maxN (map (OverflowBound.pchain d) cs) + N.max m 1).
Proof. exact MaxWrapBound.sub_renderer_bound. Qed.
Print Assumptions sub_renderer_bound.

Theorem sub_renderer_bound_flat :
  forall (d : deco) (mw m : N) (fn : bool) (L : N),
       ol_prefix_monotone d ->
       ol_prefix_sat d ->
       forall (cs : list rnode) (st : rstate) (tp : subr) (w : N) (st2 : rstate) (sub : subr) (st3 : rstate),
       RenderWidth.st_inv fn L st ->
       Forall (fun s : subr => wrap_width (sopts s) = Some m) (stack st) ->
       top st = Ok tp ->
       forallb no_table cs = true ->
       forallb (RenderWidth.tree_ok fn L) cs = true ->
       maxN (map (OverflowBound.pchain d) cs) = 0 ->
       fold_left (fun (acc : res rstate) (c : rnode) => do s <- acc; render_node d mw c s) cs
         (Ok (push_sub st (new_sub_renderer tp w))) = Ok st2 ->
       pop_sub st2 = Ok (sub, st3) ->
       forall ls : list rline,
       sub_into_lines sub = Ok ls -> forall r : rline, In r ls -> rline_width r <= N.min w (N.max m 1).
Proof. exact MaxWrapBound.sub_renderer_bound_flat. Qed.
Print Assumptions sub_renderer_bound_flat.

