From H2T Require Import Base Tagged Wrap Sub Css Dom Render Api Proofs.Small.
(* Props/C15.v -- options (model level): a maximum wrap width at least the width gives the
   same wrapping width as no maximum. *)
Theorem c15_maxwrap_noop : forall s m o,
  wrapping s = None -> sopts s = o -> 1 <= swidth_ s -> swidth_ s <= m ->
  wrap_width o = Some m ->
  wwidth (get_wrapping s) = swidth_ s.
Proof. exact get_wrapping_maxwrap_noop. Qed.
Print Assumptions c15_maxwrap_noop.

From H2T Require Import Proofs.WrapInv Proofs.OptionRel.
(* WrappedBlock layer: padding only appends trailing spaces (the same lines, each extended
   with made spaces to the block width; same outcome kind) *)
Theorem c15_pad_only_trailing_spaces : forall W cs, 1 <= W ->
  match run W false false cs, run W true false cs with
  | Ok ls, Ok lsp => Forall2 (is_pad_of W) lsp ls
  | TooNarrow, TooNarrow => True
  | _, _ => False
  end.
Proof. exact OptionRel.c15_pad_only_trailing_spaces. Qed.
Print Assumptions c15_pad_only_trailing_spaces.
Theorem c15_same_line_count : forall W ovf cs ls lsp, 1 <= W ->
  run W false ovf cs = Ok ls -> run W true ovf cs = Ok lsp -> length lsp = length ls.
Proof. exact OptionRel.c15_same_line_count. Qed.
Print Assumptions c15_same_line_count.

(* ---------- whole renderer (Proofs/Compose.v): a maximum wrap width >= the width changes nothing (overflow off) ---------- *)
From H2T Require Import Sub Css Dom Render Api Proofs.WrapInv Proofs.RenderWidth Proofs.Compose.
Theorem c15_maxwrap_noop_render :
  forall (d : deco) (mw : N) (o1 o2 : ropts) (m width : N) (tree : rnode),
       wrap_width o1 = None ->
       wrap_width o2 = Some m ->
       same_but_wrap o1 o2 ->
       o_allow_overflow o1 = false ->
       width <= m ->
       res_rel (fun s1 s2 : subr => s2 = reopt s1 o2 /\ sub_into_lines s2 = sub_into_lines s1)
         (render_tree d mw o1 width tree) (render_tree d mw o2 width tree).
Proof. exact Compose.c15_maxwrap_noop_render. Qed.
Print Assumptions c15_maxwrap_noop_render.

Theorem c15_lines_from_read :
  forall (inl : list (text * text) -> res (list styledecl)) (dr : list node -> res (list ruleset))
         (c : config) (doc : list node) (w m : N),
       c_max_wrap c = None ->
       c_overflow c = false ->
       w <= m -> lines_from_read inl dr (set_max_wrap c m) doc w = lines_from_read inl dr c doc w.
Proof. exact Compose.c15_lines_from_read. Qed.
Print Assumptions c15_lines_from_read.

Theorem c15_string_from_read :
  forall (inl : list (text * text) -> res (list styledecl)) (dr : list node -> res (list ruleset))
         (c : config) (doc : list node) (w m : N),
       c_max_wrap c = None ->
       c_overflow c = false ->
       w <= m -> string_from_read inl dr (set_max_wrap c m) doc w = string_from_read inl dr c doc w.
Proof. exact Compose.c15_string_from_read. Qed.
Print Assumptions c15_string_from_read.

