From H2T Require Import Base Tagged Wrap Sub Css Dom Render Api Proofs.Small.
(* Props/C16.v -- custom decorators are measured by display width (model level). *)
Theorem c16_marker_display_width : forall s w, swidth (pad_width s w) = N.max (swidth s) w.
Proof. exact pad_width_width. Qed.
Print Assumptions c16_marker_display_width.
Theorem c16_prefix_verbatim : forall t p l, rline_string (attach_prefix t p (RText l)) = p ++ tl_string l.
Proof. intros t p l. apply attach_prefix_text. right. exact I. Qed.
Print Assumptions c16_prefix_verbatim.

(* ---------- the trivial decorator's exact character set; affixes of every decorator verbatim around the element text (Proofs/Decorators.v) ---------- *)
From H2T Require Import Base Tagged Wrap Sub Css Dom Render Api CssParse Proofs.CssTotal Proofs.WrapInv Proofs.RenderWidth Proofs.Conserve Proofs.Footnotes Proofs.AnnBalance Proofs.RenderConserve Proofs.OptionRel Proofs.Compose Proofs.RenderTotal Proofs.FragStream Proofs.SimRel Proofs.Prune Proofs.Decorators.
Theorem c16_trivial_chars :
  forall (fs fp ff : bool) (mw : N) (o : ropts) (width : N) (tree : rnode) (s : subr) (ls : list rline),
       triv_adm o fs fp ff tree = true ->
       render_tree trivial_deco mw o width tree = Ok s ->
       sub_into_lines s = Ok ls ->
       Forall (fun c : chr => triv_ok fs fp ff c = true) (flat_map rline_string ls).
Proof. exact Decorators.c16_trivial_chars. Qed.
Print Assumptions c16_trivial_chars.

Theorem c16_trivial_string :
  forall (fs fp ff : bool) (mw : N) (o : ropts) (width : N) (tree : rnode) (s : subr) (t : text),
       triv_adm o fs fp ff tree = true ->
       render_tree trivial_deco mw o width tree = Ok s ->
       sub_into_string s = Ok t -> Forall (fun c : chr => triv_ok fs fp ff c = true) t.
Proof. exact Decorators.c16_trivial_string. Qed.
Print Assumptions c16_trivial_string.

Theorem c16_trivial_string_from_read :
  forall (fs fp ff : bool) (ist : list (text * text) -> res (list styledecl))
         (dr : list node -> res (list ruleset)) (c : config) (doc : list node) (width : N) 
         (tree : rnode) (t : text),
       c_deco c = trivial_deco ->
       to_render_tree ist dr c doc = Ok tree ->
       triv_adm (render_options c) fs fp ff tree = true ->
       string_from_read ist dr c doc width = Ok t -> Forall (fun x : chr => triv_ok fs fp ff x = true) t.
Proof. exact Decorators.c16_trivial_string_from_read. Qed.
Print Assumptions c16_trivial_string_from_read.

Theorem c16_trivial_lines_from_read :
  forall (fs fp ff : bool) (ist : list (text * text) -> res (list styledecl))
         (dr : list node -> res (list ruleset)) (c : config) (doc : list node) (width : N) 
         (tree : rnode) (tls : list tline),
       c_deco c = trivial_deco ->
       to_render_tree ist dr c doc = Ok tree ->
       triv_adm (render_options c) fs fp ff tree = true ->
       lines_from_read ist dr c doc width = Ok tls ->
       Forall (fun x : chr => triv_ok fs fp ff x = true) (flat_map tl_string tls).
Proof. exact Decorators.c16_trivial_lines_from_read. Qed.
Print Assumptions c16_trivial_lines_from_read.

Theorem c16_trivial_perm :
  forall (fs fp ff : bool) (mw : N) (o : ropts) (width : N) (tree : rnode) (s : subr) (ls : list rline),
       triv_adm o fs fp ff tree = true ->
       Forall posw (tree_stream trivial_deco mw o tree width) ->
       render_tree trivial_deco mw o width tree = Ok s ->
       sub_into_lines s = Ok ls ->
       Permutation.Permutation (filter (tvis fs fp ff) (flat_map rline_string ls))
         (tree_stream trivial_deco mw o tree width).
Proof. exact Decorators.c16_trivial_perm. Qed.
Print Assumptions c16_trivial_perm.

Theorem c16_trivial_exact :
  forall (fs fp ff : bool) (mw : N) (o : ropts) (width : N) (tree : rnode) (s : subr) (ls : list rline),
       triv_adm o fs fp ff tree = true ->
       no_table tree = true ->
       render_tree trivial_deco mw o width tree = Ok s ->
       sub_into_lines s = Ok ls -> filter (tvis fs fp ff) (flat_map rline_string ls) = leaf_stream tree.
Proof. exact Decorators.c16_trivial_exact. Qed.
Print Assumptions c16_trivial_exact.

Theorem c16_affixes_node :
  forall (d : deco) (mw : N) (o : ropts) (n : rnode) (st st' : rstate) (s : subr) (rest : list subr),
       flow n = true ->
       stack st = s :: rest ->
       sopts s = o ->
       pfc s ->
       render_node d mw n st = Ok st' ->
       exists s' : subr,
         stack st' = s' :: rest /\
         sopts s' = o /\
         filter_depth s' = filter_depth s /\
         pfc s' /\
         gout nonws s' = gout nonws s ++ full_stream d o (filter_depth s) n (length (links st)) /\
         links st' = links st ++ all_links n.
Proof. exact Decorators.c16_affixes_node. Qed.
Print Assumptions c16_affixes_node.

Theorem c16_affixes_tree :
  forall (d : deco) (mw : N) (o : ropts) (width : N) (tree : rnode) (s : subr) (ls : list rline),
       flow tree = true ->
       render_tree d mw o width tree = Ok s ->
       sub_into_lines s = Ok ls ->
       filter nonws (flat_map rline_string ls) = full_stream d o 0 tree 0 ++ foot_stream o (all_links tree).
Proof. exact Decorators.c16_affixes_tree. Qed.
Print Assumptions c16_affixes_tree.

