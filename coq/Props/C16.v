From H2T Require Import Base Tagged Wrap Sub Css Dom Render Api Proofs.Small.
(* Props/C16.v -- custom decorators are measured by display width (model level). *)
Theorem c16_marker_display_width : forall s w, swidth (pad_width s w) = N.max (swidth s) w.
Proof. exact pad_width_width. Qed.
Print Assumptions c16_marker_display_width.
Theorem c16_prefix_verbatim : forall t p l, rline_string (attach_prefix t p (RText l)) = p ++ tl_string l.
Proof. intros t p l. apply attach_prefix_text. right. exact I. Qed.
Print Assumptions c16_prefix_verbatim.
