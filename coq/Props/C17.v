(* Props/C17.v -- CSS never breaks rendering (model of css/parser.rs + css.rs glue).
   Proofs: Proofs/CssTotal.v.  The syntactic-variants clause is tied by correspondence
   (token soup, truncations, variants through the public API) - see evidence. *)
From H2T Require Import Base Tagged Wrap Css Dom CssParse Proofs.CssTotal.

(* add_css / add_agent_css: for EVERY string the outcome is rules or a parse error:
   never a panic, never out of fuel (= never a hang) *)
Theorem c17_add_css_total : forall css : text,
  match parse_css_rules css with CssOk _ | CssErr => True | CssPanic _ | CssFuel => False end.
Proof. exact CssTotal.c17_add_css_total. Qed.
Check c17_add_css_total : forall css : text,
  match parse_css_rules css with CssOk _ | CssErr => True | CssPanic _ | CssFuel => False end.
Print Assumptions c17_add_css_total.

(* inline style / color / bgcolor attributes never fail *)
Theorem c17_inline_total : forall attrs, exists l, inline_styles attrs = Ok l.
Proof. exact CssTotal.c17_inline_total. Qed.
Print Assumptions c17_inline_total.

(* <style> elements: malformed CSS is ignored, never an error *)
Theorem c17_doc_rules_total : forall doc, exists l, doc_rules doc = Ok l.
Proof. exact CssTotal.c17_doc_rules_total. Qed.
Print Assumptions c17_doc_rules_total.

(* ---------- stylesheet parsing (Proofs/CssRoundTrip.v): round trip, and whitespace/comments at every optional position are insignificant ---------- *)
From H2T Require Import Base Tagged Wrap Css Dom CssParse Proofs.CssTotal Proofs.CssRoundTrip.
Theorem parse_ruleset_rt :
  forall (p : wsp) (r : cssruleset) (rest : list chr),
       wsp_ok p ->
       ruleset_ok r = true ->
       parse_ruleset (print_ruleset_ws p r ++ rest) = POk r (skip_ws (w_end p ++ rest)).
Proof. exact CssRoundTrip.parse_ruleset_rt. Qed.
Print Assumptions parse_ruleset_rt.

Theorem parse_stylesheet_rt :
  forall rs : list cssruleset,
       forallb ruleset_ok rs = true -> parse_stylesheet (concat (map print_ruleset rs)) = POk rs [].
Proof. exact CssRoundTrip.parse_stylesheet_rt. Qed.
Print Assumptions parse_stylesheet_rt.

Theorem parse_stylesheet_rt_ws :
  forall prs : list (wsp * cssruleset),
       sheet_ok prs -> parse_stylesheet (print_sheet_ws prs) = POk (map snd prs) [].
Proof. exact CssRoundTrip.parse_stylesheet_rt_ws. Qed.
Print Assumptions parse_stylesheet_rt_ws.

Theorem insignificant_whitespace :
  forall prs : list (wsp * cssruleset),
       sheet_ok prs ->
       parse_css_rules (print_sheet_ws prs) = parse_css_rules (concat (map print_ruleset (map snd prs))).
Proof. exact CssRoundTrip.insignificant_whitespace. Qed.
Print Assumptions insignificant_whitespace.


(* ---------- with optional white space also before the comma of a selector list and inside :nth-child() (after fix a437d2a) ---------- *)
From H2T Require Import Base Tagged Wrap Css Dom CssParse Proofs.CssTotal Proofs.CssRoundTrip.
Theorem parse_ruleset_rt2 :
  forall (p : wsp2) (r : cssruleset) (rest : list chr),
       wsp2_ok p ->
       ruleset_ok r = true ->
       parse_ruleset (print_ruleset_ws2 p r ++ rest) = POk r (skip_ws (w_end (w_base p) ++ rest)).
Proof. exact CssRoundTrip.parse_ruleset_rt2. Qed.
Print Assumptions parse_ruleset_rt2.

Theorem parse_stylesheet_rt_ws2 :
  forall prs : list (wsp2 * cssruleset),
       sheet_ok2 prs -> parse_stylesheet (print_sheet_ws2 prs) = POk (map snd prs) [].
Proof. exact CssRoundTrip.parse_stylesheet_rt_ws2. Qed.
Print Assumptions parse_stylesheet_rt_ws2.

Theorem insignificant_whitespace2 :
  forall prs : list (wsp2 * cssruleset),
       sheet_ok2 prs ->
       parse_css_rules (print_sheet_ws2 prs) = parse_css_rules (concat (map print_ruleset (map snd prs))).
Proof. exact CssRoundTrip.insignificant_whitespace2. Qed.
Print Assumptions insignificant_whitespace2.


(* ---------- every class of insignificant syntax the property lists (Proofs/CssVariants.v, after the parser fixes): letter case of property names / hex digits / keywords, final ';' dropped, kept or doubled and empty declarations anywhere (also leading), unknown properties with arbitrary values (';' allowed inside balanced brackets), junk statements between rules (at-rules, unparsable rule sets); vsheet_meaning = the rule sets without the unknown declarations ---------- *)
From H2T Require Import Base Tagged Wrap Css Dom CssParse Proofs.CssTotal Proofs.CssRoundTrip Proofs.CssVariants.
Theorem parse_vrule :
  forall (v : vrule) (rest : list chr),
       vrule_ok v ->
       parse_ruleset (print_vrule v ++ rest) =
       POk (vrule_raw v) (skip_ws (CssRoundTrip.w_end (CssRoundTrip.w_base (v_ws v)) ++ rest)).
Proof. exact CssVariants.parse_vrule. Qed.
Print Assumptions parse_vrule.

Theorem junk_at_rule :
  forall (nm : list N) (l : atoms),
       name_okb nm = true ->
       atoms_ok l -> achain l = true -> complete l -> at_follow l = true -> junk_ok (print_at nm l).
Proof. exact CssVariants.junk_at_rule. Qed.
Print Assumptions junk_at_rule.

Theorem junk_unparsable :
  forall (a : atom) (l : list (list chr * atom)),
       atoms_ok (([], a) :: l) ->
       achain (([], a) :: l) = true ->
       complete (([], a) :: l) ->
       ruleset_fails (print_atoms (([], a) :: l)) -> junk_ok (print_atoms (([], a) :: l)).
Proof. exact CssVariants.junk_unparsable. Qed.
Print Assumptions junk_unparsable.

Theorem fails_pseudo_class :
  forall (n m : list N) (l : list (list chr * atom)),
       l <> [] ->
       atoms_ok (([], AIdent n) :: ([], APunct 58) :: ([], AIdent m) :: l) ->
       achain (([], AIdent n) :: ([], APunct 58) :: ([], AIdent m) :: l) = true ->
       lN_eqb (map lowerN m) s_nth_child = false ->
       ruleset_fails (print_atoms (([], AIdent n) :: ([], APunct 58) :: ([], AIdent m) :: l)).
Proof. exact CssVariants.fails_pseudo_class. Qed.
Print Assumptions fails_pseudo_class.

Theorem fails_after_elem :
  forall (n : list N) (a2 : atom) (l : list (list chr * atom)),
       atoms_ok (([], AIdent n) :: ([], a2) :: l) ->
       CssRoundTrip.selcont (afc a2) = false ->
       (afc a2 =? 44) = false ->
       (afc a2 =? 123) = false -> ruleset_fails (print_atoms (([], AIdent n) :: ([], a2) :: l)).
Proof. exact CssVariants.fails_after_elem. Qed.
Print Assumptions fails_after_elem.

Theorem variant_sheet_rt :
  forall (lead : text) (ss : list vstmt),
       CssRoundTrip.wsm lead ->
       vsheet_ok ss ->
       exists rest : text,
         CssRoundTrip.wsm rest /\ parse_stylesheet (lead ++ print_vsheet ss) = POk (vsheet_raw ss) rest.
Proof. exact CssVariants.variant_sheet_rt. Qed.
Print Assumptions variant_sheet_rt.

Theorem variant_rules :
  forall (lead : text) (ss : list vstmt),
       CssRoundTrip.wsm lead ->
       vsheet_ok ss -> parse_css_rules (lead ++ print_vsheet ss) = CssOk (rules_of (vsheet_meaning ss)).
Proof. exact CssVariants.variant_rules. Qed.
Print Assumptions variant_rules.

Theorem variants_agree :
  forall (lead1 : text) (ss1 : list vstmt) (lead2 : text) (ss2 : list vstmt),
       CssRoundTrip.wsm lead1 ->
       vsheet_ok ss1 ->
       CssRoundTrip.wsm lead2 ->
       vsheet_ok ss2 ->
       vsheet_meaning ss1 = vsheet_meaning ss2 ->
       parse_css_rules (lead1 ++ print_vsheet ss1) = parse_css_rules (lead2 ++ print_vsheet ss2).
Proof. exact CssVariants.variants_agree. Qed.
Print Assumptions variants_agree.

Theorem insignificant_variants :
  forall (lead : text) (ss : list vstmt),
       CssRoundTrip.wsm lead ->
       vsheet_ok ss ->
       forallb CssRoundTrip.ruleset_ok (vsheet_meaning ss) = true ->
       parse_css_rules (lead ++ print_vsheet ss) =
       parse_css_rules (concat (map CssRoundTrip.print_ruleset (vsheet_meaning ss))).
Proof. exact CssVariants.insignificant_variants. Qed.
Print Assumptions insignificant_variants.

Theorem real_item_decl :
  forall (d : declaration) (s : spelling),
       CssRoundTrip.decl_ok d = true -> spelling_ok d s -> item_decl (real_item d s) = d.
Proof. exact CssVariants.real_item_decl. Qed.
Print Assumptions real_item_decl.

Theorem real_item_ok :
  forall (d : declaration) (s : spelling),
       CssRoundTrip.decl_ok d = true -> spelling_ok d s -> ditem_ok (real_item d s).
Proof. exact CssVariants.real_item_ok. Qed.
Print Assumptions real_item_ok.

Theorem unknown_item :
  forall i : ditem, known_name (map lowerN (di_name i)) = false -> is_unknown (item_decl i) = true.
Proof. exact CssVariants.unknown_item. Qed.
Print Assumptions unknown_item.

