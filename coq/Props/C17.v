(* Props/C17.v -- CSS never breaks rendering (model of css/parser.rs + css.rs glue).
   Proofs: Proofs/CssTotal.v.  The syntactic-variants clause is tied by correspondence
   (token soup, truncations, variants through the public API) - see evidence. *)
From H2T Require Import Base Tagged Wrap Css Dom CssParse Proofs.CssTotal.

(* add_css / add_agent_css: for EVERY string the outcome is rules or a parse error:
   never a panic, never out of fuel (= never a hang) *)
Theorem c17_add_css_total : forall css : text,
  match parse_css_rules css with CssOk _ | CssErr => True | CssPanic _ | CssFuel => False end.
Proof. exact CssTotal.c17_add_css_total. Qed.
Check c17_add_css_total : forall css : text,
  match parse_css_rules css with CssOk _ | CssErr => True | CssPanic _ | CssFuel => False end.
Print Assumptions c17_add_css_total.

(* inline style / color / bgcolor attributes never fail *)
Theorem c17_inline_total : forall attrs, exists l, inline_styles attrs = Ok l.
Proof. exact CssTotal.c17_inline_total. Qed.
Print Assumptions c17_inline_total.

(* <style> elements: malformed CSS is ignored, never an error *)
Theorem c17_doc_rules_total : forall doc, exists l, doc_rules doc = Ok l.
Proof. exact CssTotal.c17_doc_rules_total. Qed.
Print Assumptions c17_doc_rules_total.

(* ---------- stylesheet parsing (Proofs/CssRoundTrip.v): round trip, and whitespace/comments at every optional position are insignificant ---------- *)
From H2T Require Import Base Tagged Wrap Css Dom CssParse Proofs.CssTotal Proofs.CssRoundTrip.
Theorem parse_ruleset_rt :
  forall (p : wsp) (r : cssruleset) (rest : list chr),
       wsp_ok p ->
       ruleset_ok r = true ->
       parse_ruleset (print_ruleset_ws p r ++ rest) = POk r (skip_ws (w_end p ++ rest)).
Proof. exact CssRoundTrip.parse_ruleset_rt. Qed.
Print Assumptions parse_ruleset_rt.

Theorem parse_stylesheet_rt :
  forall rs : list cssruleset,
       forallb ruleset_ok rs = true -> parse_stylesheet (concat (map print_ruleset rs)) = POk rs [].
Proof. exact CssRoundTrip.parse_stylesheet_rt. Qed.
Print Assumptions parse_stylesheet_rt.

Theorem parse_stylesheet_rt_ws :
  forall prs : list (wsp * cssruleset),
       sheet_ok prs -> parse_stylesheet (print_sheet_ws prs) = POk (map snd prs) [].
Proof. exact CssRoundTrip.parse_stylesheet_rt_ws. Qed.
Print Assumptions parse_stylesheet_rt_ws.

Theorem insignificant_whitespace :
  forall prs : list (wsp * cssruleset),
       sheet_ok prs ->
       parse_css_rules (print_sheet_ws prs) = parse_css_rules (concat (map print_ruleset (map snd prs))).
Proof. exact CssRoundTrip.insignificant_whitespace. Qed.
Print Assumptions insignificant_whitespace.


(* ---------- with optional white space also before the comma of a selector list and inside :nth-child() (after fix a437d2a) ---------- *)
From H2T Require Import Base Tagged Wrap Css Dom CssParse Proofs.CssTotal Proofs.CssRoundTrip.
Theorem parse_ruleset_rt2 :
  forall (p : wsp2) (r : cssruleset) (rest : list chr),
       wsp2_ok p ->
       ruleset_ok r = true ->
       parse_ruleset (print_ruleset_ws2 p r ++ rest) = POk r (skip_ws (w_end (w_base p) ++ rest)).
Proof. exact CssRoundTrip.parse_ruleset_rt2. Qed.
Print Assumptions parse_ruleset_rt2.

Theorem parse_stylesheet_rt_ws2 :
  forall prs : list (wsp2 * cssruleset),
       sheet_ok2 prs -> parse_stylesheet (print_sheet_ws2 prs) = POk (map snd prs) [].
Proof. exact CssRoundTrip.parse_stylesheet_rt_ws2. Qed.
Print Assumptions parse_stylesheet_rt_ws2.

Theorem insignificant_whitespace2 :
  forall prs : list (wsp2 * cssruleset),
       sheet_ok2 prs ->
       parse_css_rules (print_sheet_ws2 prs) = parse_css_rules (concat (map print_ruleset (map snd prs))).
Proof. exact CssRoundTrip.insignificant_whitespace2. Qed.
Print Assumptions insignificant_whitespace2.

