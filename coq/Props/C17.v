(* Props/C17.v -- CSS never breaks rendering (model of css/parser.rs + css.rs glue).
   Proofs: Proofs/CssTotal.v.  The syntactic-variants clause is tied by correspondence
   (token soup, truncations, variants through the public API) - see evidence. *)
From H2T Require Import Base Tagged Wrap Css Dom CssParse Proofs.CssTotal.

(* add_css / add_agent_css: for EVERY string the outcome is rules or a parse error:
   never a panic, never out of fuel (= never a hang) *)
Theorem c17_add_css_total : forall css : text,
  match parse_css_rules css with CssOk _ | CssErr => True | CssPanic _ | CssFuel => False end.
Proof. exact CssTotal.c17_add_css_total. Qed.
Check c17_add_css_total : forall css : text,
  match parse_css_rules css with CssOk _ | CssErr => True | CssPanic _ | CssFuel => False end.
Print Assumptions c17_add_css_total.

(* inline style / color / bgcolor attributes never fail *)
Theorem c17_inline_total : forall attrs, exists l, inline_styles attrs = Ok l.
Proof. exact CssTotal.c17_inline_total. Qed.
Print Assumptions c17_inline_total.

(* <style> elements: malformed CSS is ignored, never an error *)
Theorem c17_doc_rules_total : forall doc, exists l, doc_rules doc = Ok l.
Proof. exact CssTotal.c17_doc_rules_total. Qed.
Print Assumptions c17_doc_rules_total.

(* ---------- stylesheet parsing (Proofs/CssRoundTrip.v): round trip, and whitespace/comments at every optional position are insignificant ---------- *)
From H2T Require Import Base Tagged Wrap Css Dom CssParse Proofs.CssTotal Proofs.CssRoundTrip.
Theorem parse_ruleset_rt :
  forall (p : wsp) (r : cssruleset) (rest : list chr),
       wsp_ok p ->
       ruleset_ok r = true ->
       parse_ruleset (print_ruleset_ws p r ++ rest) = POk r (skip_ws (w_end p ++ rest)).
Proof. exact CssRoundTrip.parse_ruleset_rt. Qed.
Print Assumptions parse_ruleset_rt.

Theorem parse_stylesheet_rt :
  forall rs : list cssruleset,
       forallb ruleset_ok rs = true -> parse_stylesheet (concat (map print_ruleset rs)) = POk rs [].
Proof. exact CssRoundTrip.parse_stylesheet_rt. Qed.
Print Assumptions parse_stylesheet_rt.

Theorem parse_stylesheet_rt_ws :
  forall prs : list (wsp * cssruleset),
       sheet_ok prs -> parse_stylesheet (print_sheet_ws prs) = POk (map snd prs) [].
Proof. exact CssRoundTrip.parse_stylesheet_rt_ws. Qed.
Print Assumptions parse_stylesheet_rt_ws.

Theorem insignificant_whitespace :
  forall prs : list (wsp * cssruleset),
       sheet_ok prs ->
       parse_css_rules (print_sheet_ws prs) = parse_css_rules (concat (map print_ruleset (map snd prs))).
Proof. exact CssRoundTrip.insignificant_whitespace. Qed.
Print Assumptions insignificant_whitespace.


(* ---------- with optional white space also before the comma of a selector list and inside :nth-child() (after fix a437d2a) ---------- *)
From H2T Require Import Base Tagged Wrap Css Dom CssParse Proofs.CssTotal Proofs.CssRoundTrip.
Theorem parse_ruleset_rt2 :
  forall (p : wsp2) (r : cssruleset) (rest : list chr),
       wsp2_ok p ->
       ruleset_ok r = true ->
       parse_ruleset (print_ruleset_ws2 p r ++ rest) = POk r (skip_ws (w_end (w_base p) ++ rest)).
Proof. exact CssRoundTrip.parse_ruleset_rt2. Qed.
Print Assumptions parse_ruleset_rt2.

Theorem parse_stylesheet_rt_ws2 :
  forall prs : list (wsp2 * cssruleset),
       sheet_ok2 prs -> parse_stylesheet (print_sheet_ws2 prs) = POk (map snd prs) [].
Proof. exact CssRoundTrip.parse_stylesheet_rt_ws2. Qed.
Print Assumptions parse_stylesheet_rt_ws2.

Theorem insignificant_whitespace2 :
  forall prs : list (wsp2 * cssruleset),
       sheet_ok2 prs ->
       parse_css_rules (print_sheet_ws2 prs) = parse_css_rules (concat (map print_ruleset (map snd prs))).
Proof. exact CssRoundTrip.insignificant_whitespace2. Qed.
Print Assumptions insignificant_whitespace2.


(* ---------- every class of insignificant syntax the property lists (Proofs/CssVariants.v, after the parser fixes): letter case of property names / hex digits / keywords, final ';' dropped, kept or doubled and empty declarations anywhere (also leading), unknown properties with arbitrary values (';' allowed inside balanced brackets), junk statements between rules (at-rules, unparsable rule sets); vsheet_meaning = the rule sets without the unknown declarations ---------- *)
From H2T Require Import Base Tagged Wrap Css Dom CssParse Proofs.CssTotal Proofs.CssRoundTrip Proofs.CssVariants.
Theorem parse_vrule :
  forall (v : vrule) (rest : list chr),
       vrule_ok v ->
       parse_ruleset (print_vrule v ++ rest) =
       POk (vrule_raw v) (skip_ws (CssRoundTrip.w_end (CssRoundTrip.w_base (v_ws v)) ++ rest)).
Proof. exact CssVariants.parse_vrule. Qed.
Print Assumptions parse_vrule.

Theorem junk_at_rule :
  forall (nm : list N) (l : atoms),
       name_okb nm = true ->
       atoms_ok l -> achain l = true -> complete l -> at_follow l = true -> junk_ok (print_at nm l).
Proof. exact CssVariants.junk_at_rule. Qed.
Print Assumptions junk_at_rule.

Theorem junk_unparsable :
  forall (a : atom) (l : list (list chr * atom)),
       atoms_ok (([], a) :: l) ->
       achain (([], a) :: l) = true ->
       complete (([], a) :: l) ->
       ruleset_fails (print_atoms (([], a) :: l)) -> junk_ok (print_atoms (([], a) :: l)).
Proof. exact CssVariants.junk_unparsable. Qed.
Print Assumptions junk_unparsable.

Theorem fails_pseudo_class :
  forall (n m : list N) (l : list (list chr * atom)),
       l <> [] ->
       atoms_ok (([], AIdent n) :: ([], APunct 58) :: ([], AIdent m) :: l) ->
       achain (([], AIdent n) :: ([], APunct 58) :: ([], AIdent m) :: l) = true ->
       lN_eqb (map lowerN m) s_nth_child = false ->
       ruleset_fails (print_atoms (([], AIdent n) :: ([], APunct 58) :: ([], AIdent m) :: l)).
Proof. exact CssVariants.fails_pseudo_class. Qed.
Print Assumptions fails_pseudo_class.

Theorem fails_after_elem :
  forall (n : list N) (a2 : atom) (l : list (list chr * atom)),
       atoms_ok (([], AIdent n) :: ([], a2) :: l) ->
       CssRoundTrip.selcont (afc a2) = false ->
       (afc a2 =? 44) = false ->
       (afc a2 =? 123) = false -> ruleset_fails (print_atoms (([], AIdent n) :: ([], a2) :: l)).
Proof. exact CssVariants.fails_after_elem. Qed.
Print Assumptions fails_after_elem.

Theorem variant_sheet_rt :
  forall (lead : text) (ss : list vstmt),
       CssRoundTrip.wsm lead ->
       vsheet_ok ss ->
       exists rest : text,
         CssRoundTrip.wsm rest /\ parse_stylesheet (lead ++ print_vsheet ss) = POk (vsheet_raw ss) rest.
Proof. exact CssVariants.variant_sheet_rt. Qed.
Print Assumptions variant_sheet_rt.

Theorem variant_rules :
  forall (lead : text) (ss : list vstmt),
       CssRoundTrip.wsm lead ->
       vsheet_ok ss -> parse_css_rules (lead ++ print_vsheet ss) = CssOk (rules_of (vsheet_meaning ss)).
Proof. exact CssVariants.variant_rules. Qed.
Print Assumptions variant_rules.

Theorem variants_agree :
  forall (lead1 : text) (ss1 : list vstmt) (lead2 : text) (ss2 : list vstmt),
       CssRoundTrip.wsm lead1 ->
       vsheet_ok ss1 ->
       CssRoundTrip.wsm lead2 ->
       vsheet_ok ss2 ->
       vsheet_meaning ss1 = vsheet_meaning ss2 ->
       parse_css_rules (lead1 ++ print_vsheet ss1) = parse_css_rules (lead2 ++ print_vsheet ss2).
Proof. exact CssVariants.variants_agree. Qed.
Print Assumptions variants_agree.

Theorem insignificant_variants :
  forall (lead : text) (ss : list vstmt),
       CssRoundTrip.wsm lead ->
       vsheet_ok ss ->
       forallb CssRoundTrip.ruleset_ok (vsheet_meaning ss) = true ->
       parse_css_rules (lead ++ print_vsheet ss) =
       parse_css_rules (concat (map CssRoundTrip.print_ruleset (vsheet_meaning ss))).
Proof. exact CssVariants.insignificant_variants. Qed.
Print Assumptions insignificant_variants.

Theorem real_item_decl :
  forall (d : declaration) (s : spelling),
       CssRoundTrip.decl_ok d = true -> spelling_ok d s -> item_decl (real_item d s) = d.
Proof. exact CssVariants.real_item_decl. Qed.
Print Assumptions real_item_decl.

Theorem real_item_ok :
  forall (d : declaration) (s : spelling),
       CssRoundTrip.decl_ok d = true -> spelling_ok d s -> ditem_ok (real_item d s).
Proof. exact CssVariants.real_item_ok. Qed.
Print Assumptions real_item_ok.

Theorem unknown_item :
  forall i : ditem, known_name (map lowerN (di_name i)) = false -> is_unknown (item_decl i) = true.
Proof. exact CssVariants.unknown_item. Qed.
Print Assumptions unknown_item.


(* string literals (Proofs/StringTokens.v): a quoted string with escapes is one token whatever
   it contains; values and skipped statements treat it as an atom, so at-rules and unknown
   declarations holding such literals are insignificant as a whole *)
From H2T Require Import Base Tagged Wrap Sub Css Dom Render Api CssParse Proofs.CssTotal Proofs.WrapInv Proofs.RenderWidth Proofs.Conserve Proofs.Footnotes Proofs.AnnBalance Proofs.RenderConserve Proofs.OptionRel Proofs.Compose Proofs.RenderTotal Proofs.FragStream Proofs.SimRel Proofs.Prune Proofs.StringTokens.

Theorem parse_string_token_lit :
  forall (q : N) (items : list sitem) (rest : list chr),
       quote_okb q = true ->
       items_okb q items = true -> parse_string_token (lit q items ++ rest) = POk (TString (body items)) rest.
Proof. exact StringTokens.parse_string_token_lit. Qed.
Print Assumptions parse_string_token_lit.

Theorem parse_string_token_eof :
  forall (q : N) (items : list sitem),
       quote_okb q = true ->
       items_okb q items = true -> parse_string_token (mk q 1 :: inner items) = POk (TString (body items)) [].
Proof. exact StringTokens.parse_string_token_eof. Qed.
Print Assumptions parse_string_token_eof.

Theorem parse_string_token_newline :
  forall (q : N) (items : list sitem) (rest : list chr),
       quote_okb q = true ->
       items_okb q items = true ->
       parse_string_token (mk q 1 :: inner items ++ mk 10 1 :: rest) =
       POk (TBadString (body items)) (mk 10 1 :: rest).
Proof. exact StringTokens.parse_string_token_newline. Qed.
Print Assumptions parse_string_token_newline.

Theorem parse_token_lit :
  forall (w : text) (q : N) (items : list sitem) (R : list chr),
       CssRoundTrip.wsm w ->
       quote_okb q = true ->
       items_okb q items = true -> parse_token (w ++ lit q items ++ R) = POk (TString (body items)) R.
Proof. exact StringTokens.parse_token_lit. Qed.
Print Assumptions parse_token_lit.

Theorem value_toks_f_lit_step :
  forall (f d : nat) (w : text) (q : N) (items : list sitem) (post : list chr) (acc : list token),
       CssRoundTrip.wsm w ->
       quote_okb q = true ->
       items_okb q items = true ->
       value_toks_f (S f) d (w ++ lit q items ++ post) acc =
       value_toks_f f d post (TString (body items) :: acc).
Proof. exact StringTokens.value_toks_f_lit_step. Qed.
Print Assumptions value_toks_f_lit_step.

Theorem value_toks_xatoms :
  forall (l : xatoms) (K : text),
       xatoms_ok l ->
       forallb (fun wx : text * xatom => xvatom (snd wx)) l = true ->
       xvdepth l 0 = true ->
       xchain l = true -> CssVariants.vend K -> value_toks (print_xatoms l ++ K) = POk (xtoks_of l) K.
Proof. exact StringTokens.value_toks_xatoms. Qed.
Print Assumptions value_toks_xatoms.

Theorem parse_declaration_xitem :
  forall (i : xditem) (K : text),
       xditem_ok i -> CssVariants.vend K -> parse_declaration (print_xditem i ++ K) = POk (xitem_decl i) K.
Proof. exact StringTokens.parse_declaration_xitem. Qed.
Print Assumptions parse_declaration_xitem.

Theorem unknown_xitem :
  forall i : xditem,
       CssVariants.known_name (map CssVariants.lowerN (xdi_name i)) = false ->
       CssVariants.is_unknown (xitem_decl i) = true.
Proof. exact StringTokens.unknown_xitem. Qed.
Print Assumptions unknown_xitem.

Theorem skip_stmt_lit_step :
  forall (f : nat) (w : text) (q : N) (items : list sitem) (post : list chr) (stack : list N),
       CssRoundTrip.wsm w ->
       quote_okb q = true ->
       items_okb q items = true -> skip_stmt (S f) (w ++ lit q items ++ post) stack = skip_stmt f post stack.
Proof. exact StringTokens.skip_stmt_lit_step. Qed.
Print Assumptions skip_stmt_lit_step.

Theorem skip_to_end_xatoms :
  forall (l : xatoms) (rest : list chr),
       xatoms_ok l ->
       xchain l = true -> xcomplete l -> skip_to_end_of_statement (print_xatoms l ++ rest) = POk tt rest.
Proof. exact StringTokens.skip_to_end_xatoms. Qed.
Print Assumptions skip_to_end_xatoms.

Theorem junk_at_rule_x :
  forall (nm : list N) (l : xatoms),
       CssVariants.name_okb nm = true ->
       xatoms_ok l ->
       xchain l = true -> xcomplete l -> xat_follow l = true -> CssVariants.junk_ok (print_xat nm l).
Proof. exact StringTokens.junk_at_rule_x. Qed.
Print Assumptions junk_at_rule_x.

Theorem junk_insert_insignificant :
  forall (lead : text) (pre post : list CssVariants.vstmt) (j w : text),
       CssRoundTrip.wsm lead ->
       CssVariants.vsheet_ok (pre ++ post) ->
       CssVariants.junk_ok j ->
       CssRoundTrip.wsm w ->
       parse_css_rules (lead ++ CssVariants.print_vsheet (pre ++ CssVariants.VJunk j w :: post)) =
       parse_css_rules (lead ++ CssVariants.print_vsheet (pre ++ post)).
Proof. exact StringTokens.junk_insert_insignificant. Qed.
Print Assumptions junk_insert_insignificant.

Theorem at_rule_with_literals_insignificant :
  forall (lead : text) (pre post : list CssVariants.vstmt) (nm : list N) (l : xatoms) (w : text),
       CssRoundTrip.wsm lead ->
       CssVariants.vsheet_ok (pre ++ post) ->
       CssRoundTrip.wsm w ->
       CssVariants.name_okb nm = true ->
       xatoms_ok l ->
       xchain l = true ->
       xcomplete l ->
       xat_follow l = true ->
       parse_css_rules
         (lead ++ CssVariants.print_vsheet (pre ++ CssVariants.VJunk (print_xat nm l) w :: post)) =
       parse_css_rules (lead ++ CssVariants.print_vsheet (pre ++ post)).
Proof. exact StringTokens.at_rule_with_literals_insignificant. Qed.
Print Assumptions at_rule_with_literals_insignificant.

Theorem xvariant_rules :
  forall (lead : text) (ss : list xvstmt),
       CssRoundTrip.wsm lead ->
       xvsheet_ok ss ->
       parse_css_rules (lead ++ print_xvsheet ss) = CssOk (CssVariants.rules_of (xvsheet_meaning ss)).
Proof. exact StringTokens.xvariant_rules. Qed.
Print Assumptions xvariant_rules.

Theorem xvariants_agree :
  forall (lead1 : text) (ss1 : list xvstmt) (lead2 : text) (ss2 : list xvstmt),
       CssRoundTrip.wsm lead1 ->
       xvsheet_ok ss1 ->
       CssRoundTrip.wsm lead2 ->
       xvsheet_ok ss2 ->
       xvsheet_meaning ss1 = xvsheet_meaning ss2 ->
       parse_css_rules (lead1 ++ print_xvsheet ss1) = parse_css_rules (lead2 ++ print_xvsheet ss2).
Proof. exact StringTokens.xvariants_agree. Qed.
Print Assumptions xvariants_agree.

Theorem xvariant_agrees_with_variant :
  forall (lead1 : text) (ss1 : list xvstmt) (lead2 : text) (ss2 : list CssVariants.vstmt),
       CssRoundTrip.wsm lead1 ->
       xvsheet_ok ss1 ->
       CssRoundTrip.wsm lead2 ->
       CssVariants.vsheet_ok ss2 ->
       xvsheet_meaning ss1 = CssVariants.vsheet_meaning ss2 ->
       parse_css_rules (lead1 ++ print_xvsheet ss1) = parse_css_rules (lead2 ++ CssVariants.print_vsheet ss2).
Proof. exact StringTokens.xvariant_agrees_with_variant. Qed.
Print Assumptions xvariant_agrees_with_variant.
