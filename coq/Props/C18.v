From H2T Require Import Base Tagged Wrap Sub Css Dom Render Api Proofs.Small.
(* Props/C18.v -- display:none (model level): an element whose winning display is none becomes
   nothing at all - before its children, pseudo-content or fragment marker are looked at. *)
Theorem c18_hidden_is_nothing : forall sd (udc : bool) (ist : list (text * text) -> res (list styledecl)) html name attrs kids p idx sty,
  (if udc then ist attrs else Ok []) = Ok sty ->
  ws_val (c_display (cs_core (computed_style sd (mkanc name attrs idx :: p) sty))) = Some true ->
  process sd udc ist (NElem html name attrs kids) p idx = Ok None.
Proof. exact hidden_is_nothing. Qed.
Print Assumptions c18_hidden_is_nothing.

(* ---------- DOM -> render tree (Proofs/Prune.v): hidden subtrees are as if deleted; document styles are inert without use_doc_css ----------
   sheet_no_nth: no :nth-child component in any rule (deleting an element shifts the index of its later siblings: ordinary CSS semantics, counterexample ex_nth_needed). *)
From H2T Require Import Sub Css Dom Render Api CssParse Proofs.Prune.
Theorem computed_style_sim :
  forall sd : styledata,
       sheet_no_nth sd = true ->
       forall (p p' : list anc) (inl : list styledecl),
       Forall2 anc_sim p p' -> computed_style sd p inl = computed_style sd p' inl.
Proof. exact Prune.computed_style_sim. Qed.
Print Assumptions computed_style_sim.

Theorem local_deletion_gen :
  forall (sd : styledata) (udc : bool) (inl : list (text * text) -> res (list styledecl)) 
         (html : bool) (name : text) (attrs : list (text * text)) (l1 : list node) 
         (c : node) (l2 : list node) (p : list anc) (idx : Z),
       is_elem c = false \/ sheet_no_nth sd = true ->
       process sd udc inl c ({| a_name := name; a_attrs := attrs; a_idx := idx |} :: p) (1 + count_elems l1) =
       Ok None ->
       process sd udc inl (NElem html name attrs (l1 ++ c :: l2)) p idx =
       process sd udc inl (NElem html name attrs (l1 ++ l2)) p idx.
Proof. exact Prune.local_deletion_gen. Qed.
Print Assumptions local_deletion_gen.

Theorem prune_equiv :
  forall (sd : styledata) (udc : bool) (inl : list (text * text) -> res (list styledecl)),
       sheet_no_nth sd = true ->
       forall doc : list node,
       dom_to_render_tree sd udc inl doc = dom_to_render_tree sd udc inl (prune_doc sd udc inl doc).
Proof. exact Prune.prune_equiv. Qed.
Print Assumptions prune_equiv.

Theorem prune_doc_idem :
  forall (sd : styledata) (udc : bool) (inl : list (text * text) -> res (list styledecl)),
       sheet_no_nth sd = true ->
       forall doc : list node, prune_doc sd udc inl (prune_doc sd udc inl doc) = prune_doc sd udc inl doc.
Proof. exact Prune.prune_doc_idem. Qed.
Print Assumptions prune_doc_idem.

Theorem to_render_tree_prune :
  forall (inline_styles : list (text * text) -> res (list styledecl))
         (doc_rules : list node -> res (list ruleset)) (c : config) (doc : list node),
       (forall sd : styledata, effective_sd doc_rules c doc = Ok sd -> sheet_no_nth sd = true) ->
       to_render_tree inline_styles doc_rules c doc =
       (do sd <- effective_sd doc_rules c doc;
        dom_to_render_tree sd (c_use_doc_css c) inline_styles
          (prune_doc sd (c_use_doc_css c) inline_styles doc)).
Proof. exact Prune.to_render_tree_prune. Qed.
Print Assumptions to_render_tree_prune.

Theorem nodoccss_frontend_indep :
  forall (inl1 : list (text * text) -> res (list styledecl)) (dr1 : list node -> res (list ruleset))
         (inl2 : list (text * text) -> res (list styledecl)) (dr2 : list node -> res (list ruleset))
         (c : config) (doc : list node),
       c_use_doc_css c = false -> to_render_tree inl1 dr1 c doc = to_render_tree inl2 dr2 c doc.
Proof. exact Prune.nodoccss_frontend_indep. Qed.
Print Assumptions nodoccss_frontend_indep.

Theorem nodoccss_strip :
  forall (inl : list (text * text) -> res (list styledecl)) (dr : list node -> res (list ruleset))
         (inl' : list (text * text) -> res (list styledecl)) (dr' : list node -> res (list ruleset))
         (c : config) (doc : list node),
       c_use_doc_css c = false -> to_render_tree inl dr c doc = to_render_tree inl' dr' c (map strip doc).
Proof. exact Prune.nodoccss_strip. Qed.
Print Assumptions nodoccss_strip.


(* ---------- the property as stated (Proofs/PruneNoSheet.v): the document rendered under a sheet that only hides = the document with the hidden elements deleted rendered WITHOUT any style data (both routes, every width); the practically useful form keeps the non-hiding rules (unhide sd) on the deleted side ---------- *)
From H2T Require Import Base Tagged Wrap Sub Css Dom Render Api CssParse Proofs.CssTotal Proofs.WrapInv Proofs.RenderWidth Proofs.Conserve Proofs.Footnotes Proofs.AnnBalance Proofs.RenderConserve Proofs.OptionRel Proofs.Compose Proofs.RenderTotal Proofs.FragStream Proofs.SimRel Proofs.Prune Proofs.PruneNoSheet.
Theorem c18_hidden_as_deleted :
  forall (inline_styles : list (text * text) -> res (list styledecl))
         (doc_rules : list node -> res (list ruleset)) (c : config) (doc : list node) 
         (sd : styledata) (width : N),
       effective_sd doc_rules c doc = Ok sd ->
       sheet_no_nth sd = true ->
       sheet_only_hides sd = true ->
       doc_only_hides (c_use_doc_css c) inline_styles doc = true ->
       let doc' := prune_doc sd (c_use_doc_css c) inline_styles doc in
       lines_from_read inline_styles doc_rules c doc width =
       lines_from_read inline_styles doc_rules (no_css c) doc' width /\
       string_from_read inline_styles doc_rules c doc width =
       string_from_read inline_styles doc_rules (no_css c) doc' width.
Proof. exact PruneNoSheet.c18_hidden_as_deleted. Qed.
Print Assumptions c18_hidden_as_deleted.

Theorem c18_hidden_as_deleted_base :
  forall (inline_styles : list (text * text) -> res (list styledecl))
         (doc_rules : list node -> res (list ruleset)) (c : config) (doc : list node) 
         (sd : styledata) (width : N),
       effective_sd doc_rules c doc = Ok sd ->
       sheet_no_nth sd = true ->
       sheet_none_only sd = true ->
       doc_only_hides (c_use_doc_css c) inline_styles doc = true ->
       let doc' := prune_doc sd (c_use_doc_css c) inline_styles doc in
       let c0 := with_css c (unhide sd) false in
       lines_from_read inline_styles doc_rules c doc width =
       lines_from_read inline_styles doc_rules c0 doc' width /\
       string_from_read inline_styles doc_rules c doc width =
       string_from_read inline_styles doc_rules c0 doc' width.
Proof. exact PruneNoSheet.c18_hidden_as_deleted_base. Qed.
Print Assumptions c18_hidden_as_deleted_base.

Theorem c18_hidden_as_deleted_inline :
  forall (inline_styles : list (text * text) -> res (list styledecl))
         (doc_rules : list node -> res (list ruleset)) (c : config) (doc : list node) 
         (sd sd' : styledata) (width : N),
       effective_sd doc_rules c doc = Ok sd ->
       sheet_no_nth sd = true ->
       sheet_none_only sd = true ->
       doc_none_only (c_use_doc_css c) inline_styles doc = true ->
       let doc' := prune_doc sd (c_use_doc_css c) inline_styles doc in
       let c0 := with_css c sd' (c_use_doc_css c) in
       effective_sd doc_rules c0 doc' = Ok (unhide sd) ->
       lines_from_read inline_styles doc_rules c doc width =
       lines_from_read inline_styles doc_rules c0 doc' width /\
       string_from_read inline_styles doc_rules c doc width =
       string_from_read inline_styles doc_rules c0 doc' width.
Proof. exact PruneNoSheet.c18_hidden_as_deleted_inline. Qed.
Print Assumptions c18_hidden_as_deleted_inline.

Theorem computed_unhide :
  forall (sd : styledata) (me : list anc) (l : list styledecl),
       sheet_none_only sd = true ->
       forallb not_shown l = true ->
       dval (computed_style sd me l) <> Some true ->
       csim (computed_style sd me l) (computed_style (unhide sd) me l) /\
       dval (computed_style (unhide sd) me l) <> Some true.
Proof. exact PruneNoSheet.computed_unhide. Qed.
Print Assumptions computed_unhide.

Theorem render_tree_nrm :
  forall (d : deco) (mw : N) (o : ropts) (width : N) (t : rnode),
       render_tree d mw o width (nrm t) = render_tree d mw o width t.
Proof. exact PruneNoSheet.render_tree_nrm. Qed.
Print Assumptions render_tree_nrm.

Theorem dom_unhide :
  forall (sd sd0 : styledata) (udc udc0 : bool) (inl inl0 : list (text * text) -> res (list styledecl)),
       sheet_no_nth sd = true ->
       forall fA : list (text * text) -> bool,
       (forall (attrs : list (text * text)) (me : list anc),
        fA attrs = true ->
        hidden sd udc inl me attrs = false ->
        (if udc0 then inl0 attrs else Ok []) = (if udc then inl attrs else Ok []) /\
        (forall l : list styledecl,
         (if udc then inl attrs else Ok []) = Ok l ->
         csim (computed_style sd me l) (computed_style sd0 me l) /\
         dval (computed_style sd0 me l) <> Some true)) ->
       forall doc : list node,
       forallb (attrs_all fA) doc = true ->
       rmap nrm (dom_to_render_tree sd udc inl doc) =
       rmap nrm (dom_to_render_tree sd0 udc0 inl0 (prune_doc sd udc inl doc)).
Proof. exact PruneNoSheet.dom_unhide. Qed.
Print Assumptions dom_unhide.

