From H2T Require Import Base Tagged Wrap Sub Css Dom Render Api Proofs.Small.
(* Props/C18.v -- display:none (model level): an element whose winning display is none becomes
   nothing at all - before its children, pseudo-content or fragment marker are looked at. *)
Theorem c18_hidden_is_nothing : forall sd (udc : bool) (ist : list (text * text) -> res (list styledecl)) html name attrs kids p idx sty,
  (if udc then ist attrs else Ok []) = Ok sty ->
  ws_val (c_display (cs_core (computed_style sd (mkanc name attrs idx :: p) sty))) = Some true ->
  process sd udc ist (NElem html name attrs kids) p idx = Ok None.
Proof. exact hidden_is_nothing. Qed.
Print Assumptions c18_hidden_is_nothing.

(* ---------- DOM -> render tree (Proofs/Prune.v): hidden subtrees are as if deleted; document styles are inert without use_doc_css ----------
   sheet_no_nth: no :nth-child component in any rule (deleting an element shifts the index of its later siblings: ordinary CSS semantics, counterexample ex_nth_needed). *)
From H2T Require Import Sub Css Dom Render Api CssParse Proofs.Prune.
Theorem computed_style_sim :
  forall sd : styledata,
       sheet_no_nth sd = true ->
       forall (p p' : list anc) (inl : list styledecl),
       Forall2 anc_sim p p' -> computed_style sd p inl = computed_style sd p' inl.
Proof. exact Prune.computed_style_sim. Qed.
Print Assumptions computed_style_sim.

Theorem local_deletion_gen :
  forall (sd : styledata) (udc : bool) (inl : list (text * text) -> res (list styledecl)) 
         (html : bool) (name : text) (attrs : list (text * text)) (l1 : list node) 
         (c : node) (l2 : list node) (p : list anc) (idx : Z),
       is_elem c = false \/ sheet_no_nth sd = true ->
       process sd udc inl c ({| a_name := name; a_attrs := attrs; a_idx := idx |} :: p) (1 + count_elems l1) =
       Ok None ->
       process sd udc inl (NElem html name attrs (l1 ++ c :: l2)) p idx =
       process sd udc inl (NElem html name attrs (l1 ++ l2)) p idx.
Proof. exact Prune.local_deletion_gen. Qed.
Print Assumptions local_deletion_gen.

Theorem prune_equiv :
  forall (sd : styledata) (udc : bool) (inl : list (text * text) -> res (list styledecl)),
       sheet_no_nth sd = true ->
       forall doc : list node,
       dom_to_render_tree sd udc inl doc = dom_to_render_tree sd udc inl (prune_doc sd udc inl doc).
Proof. exact Prune.prune_equiv. Qed.
Print Assumptions prune_equiv.

Theorem prune_doc_idem :
  forall (sd : styledata) (udc : bool) (inl : list (text * text) -> res (list styledecl)),
       sheet_no_nth sd = true ->
       forall doc : list node, prune_doc sd udc inl (prune_doc sd udc inl doc) = prune_doc sd udc inl doc.
Proof. exact Prune.prune_doc_idem. Qed.
Print Assumptions prune_doc_idem.

Theorem to_render_tree_prune :
  forall (inline_styles : list (text * text) -> res (list styledecl))
         (doc_rules : list node -> res (list ruleset)) (c : config) (doc : list node),
       (forall sd : styledata, effective_sd doc_rules c doc = Ok sd -> sheet_no_nth sd = true) ->
       to_render_tree inline_styles doc_rules c doc =
       (do sd <- effective_sd doc_rules c doc;
        dom_to_render_tree sd (c_use_doc_css c) inline_styles
          (prune_doc sd (c_use_doc_css c) inline_styles doc)).
Proof. exact Prune.to_render_tree_prune. Qed.
Print Assumptions to_render_tree_prune.

Theorem nodoccss_frontend_indep :
  forall (inl1 : list (text * text) -> res (list styledecl)) (dr1 : list node -> res (list ruleset))
         (inl2 : list (text * text) -> res (list styledecl)) (dr2 : list node -> res (list ruleset))
         (c : config) (doc : list node),
       c_use_doc_css c = false -> to_render_tree inl1 dr1 c doc = to_render_tree inl2 dr2 c doc.
Proof. exact Prune.nodoccss_frontend_indep. Qed.
Print Assumptions nodoccss_frontend_indep.

Theorem nodoccss_strip :
  forall (inl : list (text * text) -> res (list styledecl)) (dr : list node -> res (list ruleset))
         (inl' : list (text * text) -> res (list styledecl)) (dr' : list node -> res (list ruleset))
         (c : config) (doc : list node),
       c_use_doc_css c = false -> to_render_tree inl dr c doc = to_render_tree inl' dr' c (map strip doc).
Proof. exact Prune.nodoccss_strip. Qed.
Print Assumptions nodoccss_strip.

