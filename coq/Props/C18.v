From H2T Require Import Base Tagged Wrap Sub Css Dom Render Api Proofs.Small.
(* Props/C18.v -- display:none (model level): an element whose winning display is none becomes
   nothing at all - before its children, pseudo-content or fragment marker are looked at. *)
Theorem c18_hidden_is_nothing : forall sd (udc : bool) (ist : list (text * text) -> res (list styledecl)) html name attrs kids p idx sty,
  (if udc then ist attrs else Ok []) = Ok sty ->
  ws_val (c_display (cs_core (computed_style sd (mkanc name attrs idx :: p) sty))) <> None ->
  process sd udc ist (NElem html name attrs kids) p idx = Ok None.
Proof. exact hidden_is_nothing. Qed.
Print Assumptions c18_hidden_is_nothing.
