(* Props/C19.v -- the cascade cell computes the CSS cascade (model of WithSpec::maybe_update
   as fed by StyleData::computed_style).  Spec: Spec/Cascade.v; proofs: Proofs/CascadeProof.v *)
From H2T Require Import Base Tagged Wrap Css Spec.Cascade Proofs.CascadeProof.

(* After feeding any non-empty list of declarations of one property - any origins,
   importances, specificities, in any order - the cell holds the value of the winner:
   a declaration whose key (layer, inline, ids, classes, types) is maximal, and the last
   among those with that key. *)
Theorem c19_cascade : forall (A : Type) (l : list (cdecl A)),
  l <> [] -> Forall real_origin l ->
  exists i d, nth_error l i = Some d /\ is_winner l i /\
              ws_val (fold_left feed l ws_default) = Some (cd_val d).
Proof. exact CascadeProof.c19_cascade. Qed.
Check c19_cascade : forall (A : Type) (l : list (cdecl A)),
  l <> [] -> Forall real_origin l ->
  exists i d, nth_error l i = Some d /\ is_winner l i /\
              ws_val (fold_left feed l ws_default) = Some (cd_val d).
Print Assumptions c19_cascade.

Theorem c19_winner_unique : forall (A : Type) (l : list (cdecl A)) i j,
  is_winner l i -> is_winner l j -> i = j.
Proof. exact CascadeProof.c19_winner_unique. Qed.
Print Assumptions c19_winner_unique.

Theorem c19_empty : forall A, ws_val (fold_left feed (@nil (cdecl A)) ws_default) = None.
Proof. exact CascadeProof.c19_empty. Qed.
Print Assumptions c19_empty.
