(* Props/C19.v -- the cascade cell computes the CSS cascade (model of WithSpec::maybe_update
   as fed by StyleData::computed_style).  Spec: Spec/Cascade.v; proofs: Proofs/CascadeProof.v *)
From H2T Require Import Base Tagged Wrap Css Spec.Cascade Proofs.CascadeProof.

(* After feeding any non-empty list of declarations of one property - any origins,
   importances, specificities, in any order - the cell holds the value of the winner:
   a declaration whose key (layer, inline, ids, classes, types) is maximal, and the last
   among those with that key. *)
Theorem c19_cascade : forall (A : Type) (l : list (cdecl A)),
  l <> [] -> Forall real_origin l ->
  exists i d, nth_error l i = Some d /\ is_winner l i /\
              ws_val (fold_left feed l ws_default) = Some (cd_val d).
Proof. exact CascadeProof.c19_cascade. Qed.
Check c19_cascade : forall (A : Type) (l : list (cdecl A)),
  l <> [] -> Forall real_origin l ->
  exists i d, nth_error l i = Some d /\ is_winner l i /\
              ws_val (fold_left feed l ws_default) = Some (cd_val d).
Print Assumptions c19_cascade.

Theorem c19_winner_unique : forall (A : Type) (l : list (cdecl A)) i j,
  is_winner l i -> is_winner l j -> i = j.
Proof. exact CascadeProof.c19_winner_unique. Qed.
Print Assumptions c19_winner_unique.

Theorem c19_empty : forall A, ws_val (fold_left feed (@nil (cdecl A)) ws_default) = None.
Proof. exact CascadeProof.c19_empty. Qed.
Print Assumptions c19_empty.

(* ---------- inheritance (Proofs/Inherit.v): every tag is the annotations of the enclosing nodes, outermost first; the last colour
   annotation of a piece of text is that of the nearest enclosing node with a colour ---------- *)
From H2T Require Import Sub Dom Render Api Proofs.WrapInv Proofs.RenderWidth Proofs.AnnBalance Proofs.Inherit.
Theorem render_node_inherit :
  forall (d : deco) (mw : N) (n : rnode) (Q : tag -> Prop) (st st' : rstate) 
         (s : subr) (rest : list subr),
       Q [] ->
       (forall t : tag, tree_tag d (ann_stack s) (0 <? pre_depth s) (pe_of n) t -> Q t) ->
       render_node d mw n st = Ok st' ->
       stack st = s :: rest ->
       sub_Q Q s -> exists s' : subr, stack st' = s' :: rest /\ meta_of s' = meta_of s /\ sub_Q Q s'.
Proof. exact Inherit.render_node_inherit. Qed.
Print Assumptions render_node_inherit.

Theorem text_leaf_at_path :
  forall (d : deco) (B : list ann) (pre0 : bool) (e : pe) (p : list (rinfo * cstyle)) 
         (i : rinfo) (sty : cstyle),
       path_from e (p ++ [(i, sty)]) ->
       text_leaf i = true ->
       forall t : tag,
       (tree_tag d (B ++ enclosing_anns d p) (pre0 || path_pre p) (i, sty) t <->
        with_pre d (pre0 || path_pre (p ++ [(i, sty)])) (B ++ enclosing_anns d (p ++ [(i, sty)])) t) /\
       (tree_tag d (B ++ enclosing_anns d p) (pre0 || path_pre p) (i, sty) t -> tree_tag d B pre0 e t).
Proof. exact Inherit.text_leaf_at_path. Qed.
Print Assumptions text_leaf_at_path.

Theorem render_tree_inherit :
  forall (d : deco) (mw : N) (o : ropts) (width : N) (tree : rnode) (s : subr),
       render_tree d mw o width tree = Ok s -> sub_Q (root_tag d tree) s.
Proof. exact Inherit.render_tree_inherit. Qed.
Print Assumptions render_tree_inherit.

Theorem path_tag_colour :
  forall (d : deco) (B : tag) (pre0 : bool) (p : list pe) (t : tag),
       deco_plain d ->
       path_tag d B pre0 p t ->
       last_fg t = last_some (node_fg d) p (last_fg B) /\ last_bg t = last_some (node_bg d) p (last_bg B).
Proof. exact Inherit.path_tag_colour. Qed.
Print Assumptions path_tag_colour.

Theorem render_tree_colour_inherit :
  forall (d : deco) (mw : N) (o : ropts) (width : N) (tree : rnode) (s : subr),
       deco_plain d -> render_tree d mw o width tree = Ok s -> sub_Q (root_tag_col d tree) s.
Proof. exact Inherit.render_tree_colour_inherit. Qed.
Print Assumptions render_tree_colour_inherit.


(* ---------- DOM level (Proofs/CascadeDom.v): every cell of an element's computed style - colour, background, display (bool: true = none), white-space, content - is the cascade winner among ALL applicable declarations; the key order; from the DOM chain to the output colour ---------- *)
From H2T Require Import Base Tagged Wrap Sub Css Dom Render Api CssParse Proofs.CssTotal Proofs.WrapInv Proofs.RenderWidth Proofs.Conserve Proofs.Footnotes Proofs.AnnBalance Proofs.RenderConserve Proofs.OptionRel Proofs.Compose Proofs.RenderTotal Proofs.FragStream Proofs.SimRel Proofs.Prune Proofs.CascadeDom.
Theorem computed_style_applicable :
  forall (sd : styledata) (p : list anc) (inl : list styledecl),
       computed_style sd p inl = fold_left gfeed (applicable sd p inl) cstyle0.
Proof. exact CascadeDom.computed_style_applicable. Qed.
Print Assumptions computed_style_applicable.

Theorem in_applicable :
  forall (sd : styledata) (p : list anc) (inl : list styledecl) (g : gdecl),
       In g (applicable sd p inl) <->
       (exists (o : origin) (rules : list ruleset) (r : ruleset) (d : styledecl),
          (o = OAgent /\ rules = agent_rules sd \/
           o = OUser /\ rules = user_rules sd \/ o = OAuthor /\ rules = author_rules sd) /\
          In r rules /\
          sel_matches (rs_sel r) p = true /\
          In d (rs_styles r) /\ g = decl_of o (specificity (rs_sel r)) (pseudo_el (rs_sel r)) d) \/
       (exists d : styledecl, In d inl /\ g = decl_of OAuthor spec_inline None d).
Proof. exact CascadeDom.in_applicable. Qed.
Print Assumptions in_applicable.

Theorem rule_applies_iff :
  forall (s : Selector.sel) (ps : option pseudo) (p : list anc),
       Selector.wf s ->
       sel_matches {| comps := Selector.flatten s; pseudo_el := ps |} p = true <-> Selector.matches s p.
Proof. exact CascadeDom.rule_applies_iff. Qed.
Print Assumptions rule_applies_iff.

Theorem computed_cell :
  forall (A : Type) (f : style -> option A) (get : cscore -> withspec A),
       lens f get ->
       forall (which : option pseudo) (sd : styledata) (p : list anc) (inl : list styledecl),
       get (core_at which (computed_style sd p inl)) =
       fold_left Cascade.feed (proj f which (applicable sd p inl)) ws_default.
Proof. exact (@CascadeDom.computed_cell). Qed.
Print Assumptions computed_cell.

Theorem computed_cell_winner :
  forall (A : Type) (f : style -> option A) (get : cscore -> withspec A),
       lens f get ->
       forall (which : option pseudo) (sd : styledata) (p : list anc) (inl : list styledecl),
       let l := proj f which (applicable sd p inl) in
       let cell := get (core_at which (computed_style sd p inl)) in
       l = [] /\ cell = ws_default \/
       (exists (i : nat) (d : Cascade.cdecl A),
          nth_error l i = Some d /\ Cascade.is_winner l i /\ cell = CascadeProof.cell_of d).
Proof. exact (@CascadeDom.computed_cell_winner). Qed.
Print Assumptions computed_cell_winner.

Theorem c19_dom_cascade :
  forall (which : option pseudo) (sd : styledata) (p : list anc) (inl : list styledecl),
       let ap := applicable sd p inl in
       let c := core_at which (computed_style sd p inl) in
       cascade_value (proj st_colour which ap) (ws_val (c_colour c)) /\
       cascade_value (proj st_bg which ap) (ws_val (c_bg c)) /\
       cascade_value (proj st_display which ap) (ws_val (c_display c)) /\
       cascade_value (proj st_ws which ap) (ws_val (c_white_space c)) /\
       cascade_value (proj st_content which ap) (ws_val (c_content c)).
Proof. exact CascadeDom.c19_dom_cascade. Qed.
Print Assumptions c19_dom_cascade.

Theorem layer_table :
  forall (A : Type) (s : spec) (v : A),
       Cascade.layer
         {|
           Cascade.cd_important := false;
           Cascade.cd_origin := OAgent;
           Cascade.cd_spec := s;
           Cascade.cd_val := v
         |} = 1 /\
       Cascade.layer
         {|
           Cascade.cd_important := false;
           Cascade.cd_origin := OUser;
           Cascade.cd_spec := s;
           Cascade.cd_val := v
         |} = 2 /\
       Cascade.layer
         {|
           Cascade.cd_important := false;
           Cascade.cd_origin := OAuthor;
           Cascade.cd_spec := s;
           Cascade.cd_val := v
         |} = 3 /\
       Cascade.layer
         {|
           Cascade.cd_important := true;
           Cascade.cd_origin := OAuthor;
           Cascade.cd_spec := s;
           Cascade.cd_val := v
         |} = 4 /\
       Cascade.layer
         {|
           Cascade.cd_important := true;
           Cascade.cd_origin := OUser;
           Cascade.cd_spec := s;
           Cascade.cd_val := v
         |} = 5 /\
       Cascade.layer
         {|
           Cascade.cd_important := true;
           Cascade.cd_origin := OAgent;
           Cascade.cd_spec := s;
           Cascade.cd_val := v
         |} = 6.
Proof. exact CascadeDom.layer_table. Qed.
Print Assumptions layer_table.

Theorem specificity_counts :
  forall s : selector,
       specificity s =
       {|
         sp_inline := false;
         sp_id := cnt is_hash (comps s);
         sp_class := cnt is_cls (comps s);
         sp_typ := cnt is_elt (comps s)
       |}.
Proof. exact CascadeDom.specificity_counts. Qed.
Print Assumptions specificity_counts.

Theorem applicable_keys :
  forall (sd : styledata) (p : list anc) (inl : list styledecl) (g : gdecl),
       In g (applicable sd p inl) ->
       (g_origin g = OAgent \/ g_origin g = OUser \/ g_origin g = OAuthor) /\
       (sp_inline (g_spec g) = true -> g_origin g = OAuthor /\ g_spec g = spec_inline /\ g_pseudo g = None).
Proof. exact CascadeDom.applicable_keys. Qed.
Print Assumptions applicable_keys.

Theorem process_elem_holds :
  forall (sd : styledata) (udc : bool) (inl : list (text * text) -> res (list styledecl)) 
         (html : bool) (name : text) (attrs : list (text * text)) (kids : list node) 
         (p : list anc) (idx : Z) (r : rnode),
       process sd udc inl (NElem html name attrs kids) p idx = Ok (Some r) ->
       let me := {| a_name := name; a_attrs := attrs; a_idx := idx |} :: p in
       (exists f : text, r = rn_new (IFragStart f)) \/
       holds (cs_of sd udc inl me) r \/
       names s_pre_names name = true /\ holds (pre_style (cs_of sd udc inl me)) r.
Proof. exact CascadeDom.process_elem_holds. Qed.
Print Assumptions process_elem_holds.

Theorem dom_colour_inherit :
  forall (sd : styledata) (udc : bool) (inl : list (text * text) -> res (list styledecl)) 
         (d : deco) (mw : N) (o : ropts) (width : N) (doc : list node) (tree : rnode) 
         (s : subr),
       Inherit.deco_plain d ->
       dom_to_render_tree sd udc inl doc = Ok tree ->
       render_tree d mw o width tree = Ok s -> sub_Q (dom_tag_col sd udc inl d doc) s.
Proof. exact CascadeDom.dom_colour_inherit. Qed.
Print Assumptions dom_colour_inherit.

Theorem to_render_tree_colour :
  forall (c : config) (doc : list node) (tree : rnode) (d : deco) (mw : N) (o : ropts) 
         (width : N) (s : subr),
       Inherit.deco_plain d ->
       to_render_tree inline_styles doc_rules c doc = Ok tree ->
       render_tree d mw o width tree = Ok s ->
       exists sd : styledata,
         effective_sd doc_rules c doc = Ok sd /\
         sub_Q (dom_tag_col sd (c_use_doc_css c) inline_styles d doc) s.
Proof. exact CascadeDom.to_render_tree_colour. Qed.
Print Assumptions to_render_tree_colour.

Theorem elem_fg_winner :
  forall (sd : styledata) (udc : bool) (inl : list (text * text) -> res (list styledecl)) 
         (d : deco) (me : list anc),
       d_colours d = true ->
       cascade_value (proj st_colour None (elem_decls sd udc inl me)) (elem_fg sd udc inl d me).
Proof. exact CascadeDom.elem_fg_winner. Qed.
Print Assumptions elem_fg_winner.

Theorem elem_bg_winner :
  forall (sd : styledata) (udc : bool) (inl : list (text * text) -> res (list styledecl)) 
         (d : deco) (me : list anc),
       d_colours d = true ->
       cascade_value (proj st_bg None (elem_decls sd udc inl me)) (elem_bg sd udc inl d me).
Proof. exact CascadeDom.elem_bg_winner. Qed.
Print Assumptions elem_bg_winner.


(* presentational attributes through the cascade (Proofs/AttrColours.v): the value of color= /
   bgcolor= in its four forms, and the cell it wins *)
From H2T Require Import Base Tagged Wrap Sub Css Dom Render Api CssParse Proofs.CssTotal Proofs.WrapInv Proofs.RenderWidth Proofs.Conserve Proofs.Footnotes Proofs.AnnBalance Proofs.RenderConserve Proofs.OptionRel Proofs.Compose Proofs.RenderTotal Proofs.FragStream Proofs.SimRel Proofs.Prune Proofs.AttrColours.

Theorem color_attr_hash6 :
  forall h c1 c2 c3 c4 c5 c6 : chr,
       cp h = 35 ->
       hexc c1 ->
       hexc c2 ->
       hexc c3 ->
       hexc c4 ->
       hexc c5 ->
       hexc c6 ->
       parse_color_attribute [h; c1; c2; c3; c4; c5; c6] =
       Ok (Some (hv c1 * 16 + hv c2, hv c3 * 16 + hv c4, hv c5 * 16 + hv c6)).
Proof. exact AttrColours.color_attr_hash6. Qed.
Print Assumptions color_attr_hash6.

Theorem color_attr_hash3 :
  forall h c1 c2 c3 : chr,
       cp h = 35 ->
       hexc c1 ->
       hexc c2 ->
       hexc c3 -> parse_color_attribute [h; c1; c2; c3] = Ok (Some (hv c1 * 17, hv c2 * 17, hv c3 * 17)).
Proof. exact AttrColours.color_attr_hash3. Qed.
Print Assumptions color_attr_hash3.

Theorem color_attr_nohash6 :
  forall c1 c2 c3 c4 c5 c6 : chr,
       hexc c1 ->
       hexc c2 ->
       hexc c3 ->
       hexc c4 ->
       hexc c5 ->
       hexc c6 ->
       ws c1 = false ->
       ws c6 = false ->
       parse_color_attribute [c1; c2; c3; c4; c5; c6] =
       Ok (Some (hv c1 * 16 + hv c2, hv c3 * 16 + hv c4, hv c5 * 16 + hv c6)).
Proof. exact AttrColours.color_attr_nohash6. Qed.
Print Assumptions color_attr_nohash6.

Theorem color_attr_hash_optional :
  forall h c1 c2 c3 c4 c5 c6 : chr,
       cp h = 35 ->
       hexc c1 ->
       hexc c2 ->
       hexc c3 ->
       hexc c4 ->
       hexc c5 ->
       hexc c6 ->
       ws c1 = false ->
       ws c6 = false ->
       parse_color_attribute [c1; c2; c3; c4; c5; c6] = parse_color_attribute [h; c1; c2; c3; c4; c5; c6].
Proof. exact AttrColours.color_attr_hash_optional. Qed.
Print Assumptions color_attr_hash_optional.

Theorem bgcolor_attr_cell :
  forall (sd : styledata) (p : list anc) (pre : list (text * text)) (k v : text)
         (post : list (text * text)) (c : N * N * N),
       cps k = s_bgcolor ->
       parse_color_attribute v = Ok (Some c) ->
       no_attr s_style (pre ++ (k, v) :: post) = true ->
       no_attr s_bgcolor post = true ->
       Forall (fun d : Cascade.cdecl (N * N * N) => Cascade.cd_important d = false)
         (CascadeDom.proj CascadeDom.st_bg None (CascadeDom.applicable sd p [])) ->
       exists inl : list styledecl,
         inline_styles (pre ++ (k, v) :: post) = Ok inl /\
         c_bg (cs_core (computed_style sd p inl)) =
         {| ws_val := Some c; ws_origin := OAuthor; ws_spec := spec_inline; ws_important := false |}.
Proof. exact AttrColours.bgcolor_attr_cell. Qed.
Print Assumptions bgcolor_attr_cell.

Theorem color_attr_cell :
  forall (sd : styledata) (p : list anc) (pre : list (text * text)) (k v : text)
         (post : list (text * text)) (c : N * N * N),
       cps k = s_colorattr ->
       parse_color_attribute v = Ok (Some c) ->
       no_attr s_style (pre ++ (k, v) :: post) = true ->
       no_attr s_colorattr post = true ->
       Forall (fun d : Cascade.cdecl (N * N * N) => Cascade.cd_important d = false)
         (CascadeDom.proj CascadeDom.st_colour None (CascadeDom.applicable sd p [])) ->
       exists inl : list styledecl,
         inline_styles (pre ++ (k, v) :: post) = Ok inl /\
         c_colour (cs_core (computed_style sd p inl)) =
         {| ws_val := Some c; ws_origin := OAuthor; ws_spec := spec_inline; ws_important := false |}.
Proof. exact AttrColours.color_attr_cell. Qed.
Print Assumptions color_attr_cell.

Theorem bgcolor_elem_bg :
  forall (sd : styledata) (d : deco) (name : text) (pre : list (text * text)) 
         (k v : text) (post : list (text * text)) (idx : Z) (p : list anc) (c : N * N * N),
       let attrs := pre ++ (k, v) :: post in
       let me := {| a_name := name; a_attrs := attrs; a_idx := idx |} :: p in
       d_colours d = true ->
       cps k = s_bgcolor ->
       parse_color_attribute v = Ok (Some c) ->
       no_attr s_style attrs = true ->
       no_attr s_bgcolor post = true ->
       Forall (fun d0 : Cascade.cdecl (N * N * N) => Cascade.cd_important d0 = false)
         (CascadeDom.proj CascadeDom.st_bg None (CascadeDom.applicable sd me [])) ->
       CascadeDom.elem_bg sd true inline_styles d me = Some c.
Proof. exact AttrColours.bgcolor_elem_bg. Qed.
Print Assumptions bgcolor_elem_bg.

Theorem color_elem_fg :
  forall (sd : styledata) (d : deco) (name : text) (pre : list (text * text)) 
         (k v : text) (post : list (text * text)) (idx : Z) (p : list anc) (c : N * N * N),
       let attrs := pre ++ (k, v) :: post in
       let me := {| a_name := name; a_attrs := attrs; a_idx := idx |} :: p in
       d_colours d = true ->
       cps k = s_colorattr ->
       parse_color_attribute v = Ok (Some c) ->
       no_attr s_style attrs = true ->
       no_attr s_colorattr post = true ->
       Forall (fun d0 : Cascade.cdecl (N * N * N) => Cascade.cd_important d0 = false)
         (CascadeDom.proj CascadeDom.st_colour None (CascadeDom.applicable sd me [])) ->
       CascadeDom.elem_fg sd true inline_styles d me = Some c.
Proof. exact AttrColours.color_elem_fg. Qed.
Print Assumptions color_elem_fg.

(* the priority flag in its legal spellings (Proofs/ImportantSpellings.v): white space or comments
   after the '!', any letter case, anything insignificant after the keyword - always the flag,
   for every property and value; sheets spelled that way parse to the rules they mean *)
From H2T Require Import Base Tagged Wrap Sub Css Dom Render Api CssParse Proofs.CssTotal Proofs.WrapInv Proofs.RenderWidth Proofs.Conserve Proofs.Footnotes Proofs.AnnBalance Proofs.RenderConserve Proofs.OptionRel Proofs.Compose Proofs.RenderTotal Proofs.FragStream Proofs.SimRel Proofs.Prune Proofs.ImportantSpellings.

Theorem flag_parse_value :
  forall (l : CssVariants.atoms) (w0 w1 : text) (imp : list N) (K : text),
       CssVariants.atoms_ok l ->
       forallb (fun wa : text * CssVariants.atom => CssVariants.vatom (snd wa)) l = true ->
       CssVariants.vdepth l 0 = true ->
       CssVariants.achain l = true ->
       CssRoundTrip.wsm w0 ->
       CssRoundTrip.wsm w1 ->
       imp_ok imp ->
       CssVariants.vend K ->
       parse_value (CssVariants.print_atoms l ++ w0 ++ of_ascii [33] ++ w1 ++ of_ascii imp ++ K) =
       POk (CssVariants.toks_of l, true) K.
Proof. exact ImportantSpellings.flag_parse_value. Qed.
Print Assumptions flag_parse_value.

Theorem flag_parse_value_trailing :
  forall (l : CssVariants.atoms) (w0 w1 : text) (imp : list N) (w2 : text) (x : N) (k : list chr),
       CssVariants.atoms_ok l ->
       forallb (fun wa : text * CssVariants.atom => CssVariants.vatom (snd wa)) l = true ->
       CssVariants.vdepth l 0 = true ->
       CssVariants.achain l = true ->
       CssRoundTrip.wsm w0 ->
       CssRoundTrip.wsm w1 ->
       imp_ok imp ->
       CssRoundTrip.wsm w2 ->
       x = 59 \/ x = 125 ->
       parse_value
         (CssVariants.print_atoms l ++ w0 ++ of_ascii [33] ++ w1 ++ of_ascii imp ++ w2 ++ of_ascii [x] ++ k) =
       POk (CssVariants.toks_of l, true) (w2 ++ of_ascii [x] ++ k).
Proof. exact ImportantSpellings.flag_parse_value_trailing. Qed.
Print Assumptions flag_parse_value_trailing.

Theorem flag_spellings_agree :
  forall (l : CssVariants.atoms) (w0 w1 : text) (imp : list N) (w2 : text) (x : N) (k : list chr),
       CssVariants.atoms_ok l ->
       forallb (fun wa : text * CssVariants.atom => CssVariants.vatom (snd wa)) l = true ->
       CssVariants.vdepth l 0 = true ->
       CssVariants.achain l = true ->
       CssRoundTrip.wsm w0 ->
       CssRoundTrip.wsm w1 ->
       imp_ok imp ->
       CssRoundTrip.wsm w2 ->
       x = 59 \/ x = 125 ->
       pval
         (parse_value
            (CssVariants.print_atoms l ++
             w0 ++ of_ascii [33] ++ w1 ++ of_ascii imp ++ w2 ++ of_ascii [x] ++ k)) =
       pval
         (parse_value
            (CssVariants.print_atoms l ++
             CssRoundTrip.sp1 ++ of_ascii [33] ++ [] ++ of_ascii s_important ++ [] ++ of_ascii [x] ++ k)).
Proof. exact ImportantSpellings.flag_spellings_agree. Qed.
Print Assumptions flag_spellings_agree.

Theorem item_decl_flag :
  forall (n : list N) (w : text) (l : CssVariants.atoms) (w0 w1 : text) (imp : list N),
       imp_ok imp ->
       CssVariants.item_decl (flag_item n w l w0 w1 imp) =
       {|
         d_data := decl_of (of_ascii (map CssVariants.lowerN n)) (CssVariants.toks_of l); d_important := true
       |}.
Proof. exact ImportantSpellings.item_decl_flag. Qed.
Print Assumptions item_decl_flag.

Theorem parse_declaration_flag :
  forall (n : list N) (w : text) (l : CssVariants.atoms) (w0 w1 : text) (imp : list N) (K : text),
       CssVariants.name_okb n = true ->
       CssRoundTrip.wsm w ->
       CssVariants.atoms_ok l ->
       forallb (fun wa : text * CssVariants.atom => CssVariants.vatom (snd wa)) l = true ->
       CssVariants.vdepth l 0 = true ->
       CssVariants.achain l = true ->
       CssRoundTrip.wsm w0 ->
       CssRoundTrip.wsm w1 ->
       imp_ok imp ->
       CssVariants.vend K ->
       parse_declaration
         (of_ascii n ++
          w ++ of_ascii [58] ++ CssVariants.print_atoms l ++ w0 ++ of_ascii [33] ++ w1 ++ of_ascii imp ++ K) =
       POk
         {|
           d_data := decl_of (of_ascii (map CssVariants.lowerN n)) (CssVariants.toks_of l);
           d_important := true
         |} K.
Proof. exact ImportantSpellings.parse_declaration_flag. Qed.
Print Assumptions parse_declaration_flag.

Theorem real_item2_decl :
  forall (d : declaration) (s : CssVariants.spelling) (w4 : text),
       CssRoundTrip.decl_ok d = true ->
       CssVariants.spelling_ok d s -> CssVariants.item_decl (real_item2 d s w4) = d.
Proof. exact ImportantSpellings.real_item2_decl. Qed.
Print Assumptions real_item2_decl.

Theorem real_item2_ok :
  forall (d : declaration) (s : CssVariants.spelling) (w4 : text),
       CssRoundTrip.decl_ok d = true ->
       CssVariants.spelling_ok d s -> CssRoundTrip.wsm w4 -> CssVariants.ditem_ok (real_item2 d s w4).
Proof. exact ImportantSpellings.real_item2_ok. Qed.
Print Assumptions real_item2_ok.

Theorem parse_declaration_real2 :
  forall (d : declaration) (s : CssVariants.spelling) (w4 K : text),
       CssRoundTrip.decl_ok d = true ->
       CssVariants.spelling_ok d s ->
       CssRoundTrip.wsm w4 ->
       CssVariants.vend K -> parse_declaration (CssVariants.print_ditem (real_item2 d s w4) ++ K) = POk d K.
Proof. exact ImportantSpellings.parse_declaration_real2. Qed.
Print Assumptions parse_declaration_real2.

Theorem parse_rule_spelled :
  forall (r : srule) (rest : list chr),
       srule_ok r ->
       parse_ruleset (CssVariants.print_vrule (srule_v r) ++ rest) =
       POk (srule_means r) (skip_ws (CssRoundTrip.w_end (CssRoundTrip.w_base (sr_ws r)) ++ rest)).
Proof. exact ImportantSpellings.parse_rule_spelled. Qed.
Print Assumptions parse_rule_spelled.

Theorem spelled_sheet_rules :
  forall (lead : text) (rs : list srule),
       CssRoundTrip.wsm lead ->
       Forall srule_ok rs ->
       parse_css_rules (lead ++ CssVariants.print_vsheet (ssheet rs)) =
       CssOk (CssVariants.rules_of (map srule_means rs)).
Proof. exact ImportantSpellings.spelled_sheet_rules. Qed.
Print Assumptions spelled_sheet_rules.

Theorem spelled_sheets_agree :
  forall (lead1 : text) (rs1 : list srule) (lead2 : text) (rs2 : list srule),
       CssRoundTrip.wsm lead1 ->
       Forall srule_ok rs1 ->
       CssRoundTrip.wsm lead2 ->
       Forall srule_ok rs2 ->
       map srule_means rs1 = map srule_means rs2 ->
       parse_css_rules (lead1 ++ CssVariants.print_vsheet (ssheet rs1)) =
       parse_css_rules (lead2 ++ CssVariants.print_vsheet (ssheet rs2)).
Proof. exact ImportantSpellings.spelled_sheets_agree. Qed.
Print Assumptions spelled_sheets_agree.

