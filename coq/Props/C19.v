(* Props/C19.v -- the cascade cell computes the CSS cascade (model of WithSpec::maybe_update
   as fed by StyleData::computed_style).  Spec: Spec/Cascade.v; proofs: Proofs/CascadeProof.v *)
From H2T Require Import Base Tagged Wrap Css Spec.Cascade Proofs.CascadeProof.

(* After feeding any non-empty list of declarations of one property - any origins,
   importances, specificities, in any order - the cell holds the value of the winner:
   a declaration whose key (layer, inline, ids, classes, types) is maximal, and the last
   among those with that key. *)
Theorem c19_cascade : forall (A : Type) (l : list (cdecl A)),
  l <> [] -> Forall real_origin l ->
  exists i d, nth_error l i = Some d /\ is_winner l i /\
              ws_val (fold_left feed l ws_default) = Some (cd_val d).
Proof. exact CascadeProof.c19_cascade. Qed.
Check c19_cascade : forall (A : Type) (l : list (cdecl A)),
  l <> [] -> Forall real_origin l ->
  exists i d, nth_error l i = Some d /\ is_winner l i /\
              ws_val (fold_left feed l ws_default) = Some (cd_val d).
Print Assumptions c19_cascade.

Theorem c19_winner_unique : forall (A : Type) (l : list (cdecl A)) i j,
  is_winner l i -> is_winner l j -> i = j.
Proof. exact CascadeProof.c19_winner_unique. Qed.
Print Assumptions c19_winner_unique.

Theorem c19_empty : forall A, ws_val (fold_left feed (@nil (cdecl A)) ws_default) = None.
Proof. exact CascadeProof.c19_empty. Qed.
Print Assumptions c19_empty.

(* ---------- inheritance (Proofs/Inherit.v): every tag is the annotations of the enclosing nodes, outermost first; the last colour
   annotation of a piece of text is that of the nearest enclosing node with a colour ---------- *)
From H2T Require Import Sub Dom Render Api Proofs.WrapInv Proofs.RenderWidth Proofs.AnnBalance Proofs.Inherit.
Theorem render_node_inherit :
  forall (d : deco) (mw : N) (n : rnode) (Q : tag -> Prop) (st st' : rstate) 
         (s : subr) (rest : list subr),
       Q [] ->
       (forall t : tag, tree_tag d (ann_stack s) (0 <? pre_depth s) (pe_of n) t -> Q t) ->
       render_node d mw n st = Ok st' ->
       stack st = s :: rest ->
       sub_Q Q s -> exists s' : subr, stack st' = s' :: rest /\ meta_of s' = meta_of s /\ sub_Q Q s'.
Proof. exact Inherit.render_node_inherit. Qed.
Print Assumptions render_node_inherit.

Theorem text_leaf_at_path :
  forall (d : deco) (B : list ann) (pre0 : bool) (e : pe) (p : list (rinfo * cstyle)) 
         (i : rinfo) (sty : cstyle),
       path_from e (p ++ [(i, sty)]) ->
       text_leaf i = true ->
       forall t : tag,
       (tree_tag d (B ++ enclosing_anns d p) (pre0 || path_pre p) (i, sty) t <->
        with_pre d (pre0 || path_pre (p ++ [(i, sty)])) (B ++ enclosing_anns d (p ++ [(i, sty)])) t) /\
       (tree_tag d (B ++ enclosing_anns d p) (pre0 || path_pre p) (i, sty) t -> tree_tag d B pre0 e t).
Proof. exact Inherit.text_leaf_at_path. Qed.
Print Assumptions text_leaf_at_path.

Theorem render_tree_inherit :
  forall (d : deco) (mw : N) (o : ropts) (width : N) (tree : rnode) (s : subr),
       render_tree d mw o width tree = Ok s -> sub_Q (root_tag d tree) s.
Proof. exact Inherit.render_tree_inherit. Qed.
Print Assumptions render_tree_inherit.

Theorem path_tag_colour :
  forall (d : deco) (B : tag) (pre0 : bool) (p : list pe) (t : tag),
       deco_plain d ->
       path_tag d B pre0 p t ->
       last_fg t = last_some (node_fg d) p (last_fg B) /\ last_bg t = last_some (node_bg d) p (last_bg B).
Proof. exact Inherit.path_tag_colour. Qed.
Print Assumptions path_tag_colour.

Theorem render_tree_colour_inherit :
  forall (d : deco) (mw : N) (o : ropts) (width : N) (tree : rnode) (s : subr),
       deco_plain d -> render_tree d mw o width tree = Ok s -> sub_Q (root_tag_col d tree) s.
Proof. exact Inherit.render_tree_colour_inherit. Qed.
Print Assumptions render_tree_colour_inherit.

