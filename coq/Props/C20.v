(* Props/C20.v -- the selector matcher agrees with CSS selector semantics.
   Spec: Spec/Selector.v; proofs: Proofs/SelectorProof.v *)
From H2T Require Import Base Tagged Wrap Css Spec.Selector Proofs.SelectorProof.

Theorem c20_match : forall (s : sel) (p : list anc), wf s ->
  (do_matches (flatten s) p = true <-> matches s p).
Proof. exact SelectorProof.c20_match. Qed.
Check c20_match : forall (s : sel) (p : list anc), wf s ->
  (do_matches (flatten s) p = true <-> matches s p).
Print Assumptions c20_match.

Theorem c20_nth : forall a b idx : Z, nth_test a b idx = true <-> nth_spec a b idx.
Proof. exact SelectorProof.c20_nth. Qed.
Check c20_nth : forall a b idx : Z, nth_test a b idx = true <-> nth_spec a b idx.
Print Assumptions c20_nth.

Theorem c20_list : forall (ss : list sel) (p : list anc), Forall wf ss ->
  (existsb (fun s => do_matches (flatten s) p) ss = true <-> exists s, In s ss /\ matches s p).
Proof. exact SelectorProof.c20_list. Qed.
Print Assumptions c20_list.

(* ---------- selector parsing (Proofs/CssRoundTrip.v): parse (print s) = s for every well-formed selector ---------- *)
From H2T Require Import Base Tagged Wrap Css Dom CssParse Proofs.CssTotal Proofs.CssRoundTrip.
Theorem parse_selector_rt :
  forall (s : selector) (rest : text),
       wf_selector s = true ->
       (pseudo_el s = None -> nf selcont rest) -> parse_selector (print_selector s ++ rest) = POk s rest.
Proof. exact CssRoundTrip.parse_selector_rt. Qed.
Print Assumptions parse_selector_rt.

Theorem parse_selector_rt_ws :
  forall (s : selector) (w rest : text),
       wf_selector s = true ->
       pseudo_el s = None ->
       wsm w -> w <> [] -> nf selcont rest -> parse_selector (print_selector s ++ w ++ rest) = POk s rest.
Proof. exact CssRoundTrip.parse_selector_rt_ws. Qed.
Print Assumptions parse_selector_rt_ws.


(* ---------- with optional white space inside :nth-child(An + B) (after fix a437d2a) ---------- *)
From H2T Require Import Base Tagged Wrap Css Dom CssParse Proofs.CssTotal Proofs.CssRoundTrip.
Theorem parse_selector_rt_nthws :
  forall (q : nws) (s : selector) (rest : text),
       nws_ok q ->
       wf_selector s = true ->
       (pseudo_el s = None -> nf selcont rest) -> parse_selector (print_selector_q q s ++ rest) = POk s rest.
Proof. exact CssRoundTrip.parse_selector_rt_nthws. Qed.
Print Assumptions parse_selector_rt_nthws.

