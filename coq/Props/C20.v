(* Props/C20.v -- the selector matcher agrees with CSS selector semantics.
   Spec: Spec/Selector.v; proofs: Proofs/SelectorProof.v *)
From H2T Require Import Base Tagged Wrap Css Spec.Selector Proofs.SelectorProof.

Theorem c20_match : forall (s : sel) (p : list anc), wf s ->
  (do_matches (flatten s) p = true <-> matches s p).
Proof. exact SelectorProof.c20_match. Qed.
Check c20_match : forall (s : sel) (p : list anc), wf s ->
  (do_matches (flatten s) p = true <-> matches s p).
Print Assumptions c20_match.

Theorem c20_nth : forall a b idx : Z, nth_test a b idx = true <-> nth_spec a b idx.
Proof. exact SelectorProof.c20_nth. Qed.
Check c20_nth : forall a b idx : Z, nth_test a b idx = true <-> nth_spec a b idx.
Print Assumptions c20_nth.

Theorem c20_list : forall (ss : list sel) (p : list anc), Forall wf ss ->
  (existsb (fun s => do_matches (flatten s) p) ss = true <-> exists s, In s ss /\ matches s p).
Proof. exact SelectorProof.c20_list. Qed.
Print Assumptions c20_list.

(* ---------- selector parsing (Proofs/CssRoundTrip.v): parse (print s) = s for every well-formed selector ---------- *)
From H2T Require Import Base Tagged Wrap Css Dom CssParse Proofs.CssTotal Proofs.CssRoundTrip.
Theorem parse_selector_rt :
  forall (s : selector) (rest : text),
       wf_selector s = true ->
       (pseudo_el s = None -> nf selcont rest) -> parse_selector (print_selector s ++ rest) = POk s rest.
Proof. exact CssRoundTrip.parse_selector_rt. Qed.
Print Assumptions parse_selector_rt.

Theorem parse_selector_rt_ws :
  forall (s : selector) (w rest : text),
       wf_selector s = true ->
       pseudo_el s = None ->
       wsm w -> w <> [] -> nf selcont rest -> parse_selector (print_selector s ++ w ++ rest) = POk s rest.
Proof. exact CssRoundTrip.parse_selector_rt_ws. Qed.
Print Assumptions parse_selector_rt_ws.


(* ---------- with optional white space inside :nth-child(An + B) (after fix a437d2a) ---------- *)
From H2T Require Import Base Tagged Wrap Css Dom CssParse Proofs.CssTotal Proofs.CssRoundTrip.
Theorem parse_selector_rt_nthws :
  forall (q : nws) (s : selector) (rest : text),
       nws_ok q ->
       wf_selector s = true ->
       (pseudo_el s = None -> nf selcont rest) -> parse_selector (print_selector_q q s ++ rest) = POk s rest.
Proof. exact CssRoundTrip.parse_selector_rt_nthws. Qed.
Print Assumptions parse_selector_rt_nthws.


(* the class attribute (Proofs/ClassSplit.v): an element has class c iff c is a maximal run of
   non-white-space characters of one of its class attributes, compared code point by code point;
   every white-space character separates (tab, LF, FF, CR, space alike) *)
From H2T Require Import Base Tagged Wrap Sub Css Dom Render Api CssParse Proofs.CssTotal Proofs.WrapInv Proofs.RenderWidth Proofs.Conserve Proofs.Footnotes Proofs.AnnBalance Proofs.RenderConserve Proofs.OptionRel Proofs.Compose Proofs.RenderTotal Proofs.FragStream Proofs.SimRel Proofs.Prune Proofs.ClassSplit.

Theorem split_whitespace_spec :
  forall v t : text, In t (split_whitespace v) <-> token_of t v.
Proof. exact ClassSplit.split_whitespace_spec. Qed.
Print Assumptions split_whitespace_spec.

Theorem split_whitespace_toks :
  forall (v : text) (l : list text), toks v l <-> split_whitespace v = l.
Proof. exact ClassSplit.split_whitespace_toks. Qed.
Print Assumptions split_whitespace_toks.

Theorem has_class_spec :
  forall (a : anc) (cls : text),
       has_class a cls = true <->
       (exists k v : text,
          In (k, v) (a_attrs a) /\ cps k = s_class /\ (exists t : text, token_of t v /\ cps t = cps cls)).
Proof. exact ClassSplit.has_class_spec. Qed.
Print Assumptions has_class_spec.

Theorem class_arm_spec :
  forall (cls : text) (rest : list comp) (a : anc) (p : list anc),
       do_matches (CClass cls :: rest) (a :: p) = true <->
       (exists k v : text,
          In (k, v) (a_attrs a) /\ cps k = s_class /\ (exists t : text, token_of t v /\ cps t = cps cls)) /\
       do_matches rest (a :: p) = true.
Proof. exact ClassSplit.class_arm_spec. Qed.
Print Assumptions class_arm_spec.

Theorem has_class_cps :
  forall (a : anc) (cls cls' : text), cps cls = cps cls' -> has_class a cls = has_class a cls'.
Proof. exact ClassSplit.has_class_cps. Qed.
Print Assumptions has_class_cps.

Theorem split_leading_trailing :
  forall (s1 : text) (v : list chr) (s2 : text),
       only_ws s1 -> only_ws s2 -> split_whitespace (s1 ++ v ++ s2) = split_whitespace v.
Proof. exact ClassSplit.split_leading_trailing. Qed.
Print Assumptions split_leading_trailing.

Theorem split_double_sep :
  forall (a : list chr) (c d : chr) (b : list chr),
       ws c = true -> ws d = true -> split_whitespace (a ++ c :: d :: b) = split_whitespace (a ++ c :: b).
Proof. exact ClassSplit.split_double_sep. Qed.
Print Assumptions split_double_sep.

Theorem split_any_sep :
  forall (a : list chr) (c d : chr) (b : list chr),
       ws c = true -> ws d = true -> split_whitespace (a ++ c :: b) = split_whitespace (a ++ d :: b).
Proof. exact ClassSplit.split_any_sep. Qed.
Print Assumptions split_any_sep.

Theorem has_class_any_attr :
  forall (a : anc) (cls k v t : text),
       In (k, v) (a_attrs a) ->
       cps k = s_class -> In t (split_whitespace v) -> cps t = cps cls -> has_class a cls = true.
Proof. exact ClassSplit.has_class_any_attr. Qed.
Print Assumptions has_class_any_attr.

