(* Render.v -- size estimates (lib.rs:337-376, 537-573, 667-785, 2844-2854),
   do_render_node / render_table_* (lib.rs:1831-2380). *)
From H2T Require Import Base Tagged Wrap Sub Css Dom.

(* ---------------- size estimates ---------------- *)
Record est := mkest { e_size : N; e_min : N; e_prefix : N }.
Definition est0 : est := mkest 0 0 0.
Definition est_add (a b : est) : est := mkest (e_size a + e_size b) (N.max (e_min a) (e_min b)) 0.
Definition est_add_hor (a b : est) : est := mkest (e_size a + e_size b) (e_min a + e_min b) 0.
Definition est_max (a b : est) : est :=
  mkest (N.max (e_size a) (e_size b)) (N.max (e_min a) (e_min b)) 0.

Fixpoint text_len_loop (t : text) (in_ws : bool) (len : N) : N :=
  match t with
  | [] => len
  | c :: t' =>
    if ws c then text_len_loop t' true len
    else text_len_loop t' false (len + cw0 c + (if in_ws then 1 else 0))
  end.
Definition text_est (min_wrap : N) (t : text) (img : bool) : est :=
  let len := text_len_loop (trim t) false 0 in
  let len := match t with c :: _ => if ws c then len + 1 else len | [] => len end in
  let len := if img then len + 2 else len in
  mkest len (N.min len min_wrap) 0.

Definition ol_prefix_size (d : deco) (start : Z) (n : nat) : res N :=
  let sn := isat64 (start + Z.of_nat n) in
  let mx := isat64 (sn - 1) in
  Ok (N.max (swidth (d_ol_prefix d start)) (swidth (d_ol_prefix d mx))).

Fixpoint upd_range {A} (l : list A) (from len : nat) (f : A -> A) : option (list A) :=
  match len with
  | O => Some l
  | S len' =>
    match from, l with
    | O, x :: l' => match upd_range l' O len' f with
                    | Some r => Some (f x :: r)
                    | None => None
                    end
    | S from', x :: l' => match upd_range l' from' len f with
                          | Some r => Some (x :: r)
                          | None => None
                          end
    | _, [] => None
    end
  end.

Section Est.
  Variable d : deco.
  Variable min_wrap : N.

  Fixpoint est_node (n : rnode) {struct n} : res est :=
    let fold_kids (cs : list rnode) : res est :=
        fold_left (fun acc c => do a <- acc; do e <- est_node c; Ok (est_add a e)) cs (Ok est0) in
    let prefixed (cs : list rnode) (pw : N) : res est :=
        do e <- fold_kids cs;
        let r := est_add_hor e (mkest pw pw 0) in
        Ok (mkest (e_size r) (e_min r) pw) in
    match rn_info n with
    | IText t => Ok (text_est min_wrap t false)
    | IImg _ t => Ok (text_est min_wrap t true)
    | IContainer v | IEm v | IStrong v | IStrikeout v | ICode v | IBlock v | IDiv v | IDl v
    | IDt v | IListItem v | ISup v => fold_kids v
    | ILink _ v => do e <- fold_kids v; Ok (est_add e (mkest 5 5 0))
    | IDd v => prefixed v 2
    | IBlockQuote v => prefixed v (swidth (d_quote_prefix d))
    | IUl v => prefixed v (swidth (d_ul_prefix d))
    | IOl i v => do ps <- ol_prefix_size d i (length v); prefixed v ps
    | IHeader level v => prefixed v (swidth (d_header_prefix d level))
    | IBreak => Ok (mkest 1 1 0)
    | ITable rows ncols =>
      (* the precalc pass computes every cell-content estimate first *)
      let cell_est (c : rcell) : res est :=
          match c with RCell _ k _ => fold_kids k end in
      if ncols =? 0 then
        do _e <- fold_left (fun acc r =>
                   do _a <- acc;
                   fold_left (fun acc2 c => do _b <- acc2; do _c <- cell_est c; Ok tt)
                             (row_cells r) (Ok tt)) rows (Ok tt);
        Ok est0
      else
        let row_step (sizes : list est) (r : rrow) : res (list est) :=
            do res_ <- fold_left
                 (fun acc c =>
                    do st <- acc;
                    let '(sz, colno) := st in
                    do ce <- cell_est c;
                    let cspan := cell_colspan c in
                    match upd_range sz (N.to_nat colno) (N.to_nat cspan)
                            (fun s => mkest (e_size s + e_size ce / cspan)
                                            (N.max (e_min s) (e_min ce / cspan)) (e_prefix s)) with
                    | Some sz' => Ok (sz', colno + cspan)
                    | None => Panic 31
                    end)
                 (row_cells r) (Ok (sizes, 0));
            Ok (fst res_) in
        do sizes <- fold_left (fun acc r => do s <- acc; row_step s r) rows
                              (Ok (repeat est0 (N.to_nat ncols)));
        Ok (mkest (sumN (map e_size sizes)) (sumN (map e_min sizes) + ncols - 1) 0)
    | ITableRow _ | ITableBody _ | ITableCell _ => Panic 60
    | IFragStart _ => Ok est0
    end.

  Definition est_kids (cs : list rnode) : res est :=
    fold_left (fun acc c => do a <- acc; do e <- est_node c; Ok (est_add a e)) cs (Ok est0).
End Est.

(* ---------------- rendering ---------------- *)
Record rstate := mkrst { stack : list subr; links : list text }.

Definition with_top (st : rstate) (f : subr -> res subr) : res rstate :=
  match stack st with
  | [] => Panic 12
  | s :: rest => do s' <- f s; Ok (mkrst (s' :: rest) (links st))
  end.
Definition with_top' (st : rstate) (f : subr -> subr) : res rstate :=
  with_top st (fun s => Ok (f s)).
Definition top (st : rstate) : res subr :=
  match stack st with [] => Panic 12 | s :: _ => Ok s end.
Definition push_sub (st : rstate) (s : subr) : rstate := mkrst (s :: stack st) (links st).
Definition pop_sub (st : rstate) : res (subr * rstate) :=
  match stack st with [] => Panic 12 | s :: rest => Ok (s, mkrst rest (links st)) end.

Record pushed := mkpushed { p_colour : bool; p_bg : bool; p_ws : bool; p_pre : bool }.

Definition apply_style (d : deco) (st : rstate) (cs : cstyle) : res (rstate * pushed) :=
  let core := cs_core cs in
  do st1 <- (match ws_val (c_colour core) with
             | Some (r, g, b) => with_top' st (fun s => push_colour d s r g b)
             | None => Ok st
             end);
  do st2 <- (match ws_val (c_bg core) with
             | Some (r, g, b) => with_top' st1 (fun s => push_bgcolour d s r g b)
             | None => Ok st1
             end);
  let wsm := match ws_val (c_white_space core) with
             | Some WsPre => Some WsPre
             | Some WsPreWrap => Some WsPreWrap
             | _ => None
             end in
  do st3 <- (match wsm with
             | Some m => with_top' st2 (fun s => push_ws_mode s m)
             | None => Ok st2
             end);
  do st4 <- (if cs_internal_pre cs then with_top' st3 push_preformat else Ok st3);
  Ok (st4, mkpushed (match ws_val (c_colour core) with Some _ => true | None => false end)
                    (match ws_val (c_bg core) with Some _ => true | None => false end)
                    (match wsm with Some _ => true | None => false end)
                    (cs_internal_pre cs)).

Definition unwind (d : deco) (p : pushed) (st : rstate) : res rstate :=
  do st1 <- (if p_bg p then with_top' st (pop_bgcolour d) else Ok st);
  do st2 <- (if p_colour p then with_top' st1 (pop_colour d) else Ok st1);
  do st3 <- (if p_ws p then with_top' st2 pop_ws_mode else Ok st2);
  if p_pre p then with_top st3 pop_preformat else Ok st3.

(* superscript digits *)
Definition sup_char (c : chr) : chr :=
  let dgt := cp c - 48 in
  let code := if dgt =? 1 then 185 else if dgt =? 2 then 178 else if dgt =? 3 then 179
              else 8304 + dgt in
  mkchr code (Some 1) false (lab c).
Definition is_ascii_digit (c : chr) : bool := (48 <=? cp c) && (cp c <=? 57).
Definition sup_digits (cs : list rnode) : option text :=
  match cs with
  | [n] => match rn_info n with
           | IText s => if forallb is_ascii_digit s then Some (map sup_char s) else None
           | _ => None
           end
  | _ => None
  end.

(* pad with spaces to `width` characters / columns *)
Definition pad_chars (s : text) (width : N) : text :=
  s ++ repeat_chr (spacel L_prefix) (N.to_nat width - length s).
Definition pad_width (s : text) (width : N) : text :=
  s ++ repeat_chr (spacel L_prefix) (N.to_nat (width - swidth s)).

(* ---- table layout (render_table_tree) ---- *)
Definition col_width_of (width tot_size : N) (sz : est) : N :=
  if e_size sz =? 0 then 0 else
  N.min (e_size sz)
        (if usize_max / width <=? e_size sz
         then N.max ((width / tot_size) * e_size sz) (e_min sz)
         else N.max (e_size sz * width / tot_size) (e_min sz)).

(* argmax by key (w - min (saturating), w, MAX - colno): the last maximum, and keys are
   unique, so: largest slack, then largest width, then smallest column number *)
Definition key_lt (a b : N * N * N) : bool :=
  let '(a1, a2, a3) := a in let '(b1, b2, b3) := b in
  if a1 <? b1 then true else if b1 <? a1 then false else
  if a2 <? b2 then true else if b2 <? a2 then false else a3 <? b3.
Fixpoint argmax_col (ws_ : list N) (mins : list N) (colno : N) (best : option (N * (N * N * N)))
  : option N :=
  match ws_, mins with
  | w :: ws', m :: mins' =>
    let k := (w - m, w, usize_max - colno) in
    let best' := match best with
                 | None => Some (colno, k)
                 | Some (_, bk) => if key_lt k bk then best else Some (colno, k)
                 end in
    argmax_col ws' mins' (colno + 1) best'
  | _, _ => match best with Some (i, _) => Some i | None => None end
  end.

Fixpoint shrink_loop (fuel : nat) (width : N) (mins : list N) (ws_ : list N) : res (list N) :=
  let cur := sumN ws_ + N.of_nat (length ws_) - 1 in
  if cur <=? width then Ok ws_ else
  match fuel with
  | O => OutOfFuel
  | S f =>
    match argmax_col ws_ mins 0 None with
    | None => Panic 31
    | Some i =>
      match nth_opt ws_ (N.to_nat i) with
      | Some 0 => Panic 34
      | Some _ => shrink_loop f width mins (upd_nth ws_ (N.to_nat i) (fun w => w - 1))
      | None => Panic 31
      end
    end
  end.

(* RenderTableRow::into_cells: for every cell, Some col_width if it gets a width,
   None if it is skipped (zero width) *)
Fixpoint cell_widths (vertical : bool) (col_sizes : list N) (cells : list rcell) (colno : N)
  : res (list (option N)) :=
  match cells with
  | [] => Ok []
  | c :: cells' =>
    let cspan := cell_colspan c in
    do cw_ <- (if vertical
               then match nth_opt col_sizes (N.to_nat colno) with
                    | Some w => Ok w
                    | None => Panic 31
                    end
               else if N.of_nat (length col_sizes) <? colno + cspan then Panic 31
                    else Ok (sumN (firstn (N.to_nat cspan) (skipn (N.to_nat colno) col_sizes))));
    do r <- cell_widths vertical col_sizes cells' (colno + cspan);
    if 0 <? cw_
    then if vertical then Ok (Some cw_ :: r)
         else do w1 <- uadd 30 cw_ cspan;
              do w2 <- usub 30 w1 1;
              Ok (Some w2 :: r)
    else Ok (None :: r)
  end.

Section Render.
  Variable d : deco.
  Variable min_wrap : N.

  Definition est_of (n : rnode) : res est := est_node d min_wrap n.

  Definition inline_text (st : rstate) (t : text) : res rstate :=
    with_top st (fun s => add_inline_text d s t).

  Fixpoint render_node (n : rnode) (st0 : rstate) {struct n} : res rstate :=
    let render_kids (cs : list rnode) (st : rstate) : res rstate :=
        fold_left (fun acc c => do s <- acc; render_node c s) cs (Ok st) in
    do sz <- (match rn_info n with
              | ITableRow _ | ITableCell _ | ITableBody _ => Ok est0
              | _ => est_of n
              end);
    do ap <- apply_style d st0 (rn_style n);
    let '(st, pushed_style) := ap in
    let fin (st : rstate) := unwind d pushed_style st in
    match rn_info n with
    | IText t => do st1 <- inline_text st t; fin st1
    | IContainer cs => do st1 <- render_kids cs st; fin st1
    | ILink href cs =>
      let st1 := mkrst (stack st) (links st ++ [href]) in
      do st2 <- with_top st1 (fun s => sub_start_link d s href);
      do st3 <- render_kids cs st2;
      do st4 <- with_top st3 (fun s => sub_end_link d s);
      do tp <- top st4;
      do st5 <- (if o_footnotes (sopts tp)
                 then inline_text st4 (ftext ([91] ++ dec_N (N.of_nat (length (links st4))) ++ [93]))
                 else Ok st4);
      fin st5
    | IEm cs =>
      do st1 <- with_top st (start_emphasis d);
      do st2 <- render_kids cs st1;
      do st3 <- with_top st2 (end_emphasis d); fin st3
    | IStrong cs =>
      do st1 <- with_top st (start_strong d);
      do st2 <- render_kids cs st1;
      do st3 <- with_top st2 (end_strong d); fin st3
    | IStrikeout cs =>
      do st1 <- with_top st (start_strikeout d);
      do st2 <- render_kids cs st1;
      do st3 <- with_top st2 (end_strikeout d); fin st3
    | ICode cs =>
      do st1 <- with_top st (start_code d);
      do st2 <- render_kids cs st1;
      do st3 <- with_top st2 (end_code d); fin st3
    | IImg src title =>
      do st1 <- with_top st (fun s => add_image d s src title); fin st1
    | IBlock cs | IListItem cs =>
      do st1 <- with_top st start_block;
      do st2 <- render_kids cs st1;
      do st3 <- with_top' st2 end_block; fin st3
    | IHeader level cs =>
      let prefix := d_header_prefix d level in
      let prefix_size := e_prefix sz in
      if negb (swidth prefix =? prefix_size) then Panic 20 else
      let inner_width := e_min sz - prefix_size in
      do tp <- top st;
      do w <- width_minus tp prefix_size inner_width;
      let st1 := push_sub st (new_sub_renderer tp w) in
      do st2 <- render_kids cs st1;
      do pp <- pop_sub st2;
      let '(sub, st3) := pp in
      do st4 <- with_top st3 start_block;
      do st5 <- with_top st4 (fun s => append_subrender s sub prefix prefix);
      do st6 <- with_top' st5 end_block; fin st6
    | IDiv cs =>
      do st1 <- with_top st new_line;
      do st2 <- render_kids cs st1;
      do st3 <- with_top st2 new_line; fin st3
    | IBlockQuote cs =>
      let prefix := d_quote_prefix d in
      let plen := swidth prefix in
      if negb (e_prefix sz =? plen) then Panic 21 else
      do inner_width <- usub 21 (e_min sz) plen;
      do tp <- top st;
      do w <- width_minus tp plen inner_width;
      let st1 := push_sub st (new_sub_renderer tp w) in
      do st2 <- render_kids cs st1;
      do pp <- pop_sub st2;
      let '(sub, st3) := pp in
      do st4 <- with_top st3 start_block;
      do st5 <- with_top st4 (fun s => append_subrender s sub prefix prefix);
      do st6 <- with_top' st5 end_block; fin st6
    | IUl items =>
      let prefix := d_ul_prefix d in
      let plen := swidth prefix in
      let indent := repeat_chr (spacel L_prefix) (N.to_nat plen) in
      do st1 <- fold_left
           (fun acc item =>
              do s <- acc;
              do inner_width <- usub 22 (e_min sz) plen;
              do tp <- top s;
              do w <- width_minus tp plen inner_width;
              do s2 <- render_node item (push_sub s (new_sub_renderer tp w));
              do pp <- pop_sub s2;
              let '(sub, s3) := pp in
              with_top s3 (fun t => append_subrender t sub prefix indent))
           items (Ok st);
      fin st1
    | IOl start items =>
      let sn := isat64 (start + Z.of_nat (length items)) in
      let max_number := isat64 (sn - 1) in
      let prefix_width := N.max (swidth (d_ol_prefix d start)) (swidth (d_ol_prefix d max_number)) in
      let prefixn := pad_chars [] prefix_width in
      do r <- fold_left
           (fun acc item =>
              do si <- acc;
              let '(s, i) := si in
              do inner_min <- usub 23 (e_min sz) (e_prefix sz);
              do tp <- top s;
              do w <- width_minus tp prefix_width inner_min;
              do s2 <- render_node item (push_sub s (new_sub_renderer tp w));
              do pp <- pop_sub s2;
              let '(sub, s3) := pp in
              let prefix1 := pad_width (d_ol_prefix d i) prefix_width in
              do s4 <- with_top s3 (fun t => append_subrender t sub prefix1 prefixn);
              Ok (s4, isat64 (i + 1)))
           items (Ok (st, start));
      fin (fst r)
    | IDl cs =>
      do st1 <- with_top st start_block;
      do st2 <- render_kids cs st1; fin st2
    | IDt cs =>
      do st1 <- with_top st new_line;
      do st2 <- with_top st1 (start_emphasis d);
      do st3 <- render_kids cs st2;
      do st4 <- with_top st3 (end_emphasis d); fin st4
    | IDd cs =>
      do inner_min <- usub 24 (e_min sz) 2;
      do tp <- top st;
      do w <- width_minus tp 2 inner_min;
      let st1 := push_sub st (new_sub_renderer tp w) in
      do st2 <- render_kids cs st1;
      do pp <- pop_sub st2;
      let '(sub, st3) := pp in
      let p2 := ptext [32; 32] in
      do st4 <- with_top st3 (fun s => append_subrender s sub p2 p2); fin st4
    | IBreak => do st1 <- with_top st new_line_hard; fin st1
    | ITable rows ncols =>
      (* render_table_tree *)
      let cell_est (c : rcell) : res est := est_kids d min_wrap (cell_content c) in
      let row_step (sizes : list est) (r : rrow) : res (list est) :=
          do res_ <- fold_left
               (fun acc c =>
                  do a <- acc;
                  let '(sz_, colno) := a in
                  do ce <- cell_est c;
                  let cspan := cell_colspan c in
                  if cspan =? 0 then Panic 33 else
                  let e := mkest (e_size ce / cspan) (e_min ce / cspan) (e_prefix ce) in
                  match upd_range sz_ (N.to_nat colno) (N.to_nat cspan) (fun s => est_max s e) with
                  | Some sz' => Ok (sz', colno + cspan)
                  | None => Panic 31
                  end)
               (row_cells r) (Ok (sizes, 0));
          Ok (fst res_) in
      do col_sizes <- fold_left (fun acc r => do s <- acc; row_step s r) rows
                                (Ok (repeat est0 (N.to_nat ncols)));
      let tot_size := sumN (map e_size col_sizes) in
      let min_size := sumN (map e_min col_sizes) + (N.of_nat (length col_sizes) - 1) in
      do tp <- top st;
      let width := swidth_ tp in
      let vert_row := o_raw (sopts tp) || ((width <? min_size) || (width =? 0)) in
      do col_widths <-
         (if negb vert_row
          then
            let ws0 := map (col_width_of width tot_size) col_sizes in
            match ws0 with
            | [] => Ok ws0
            | _ => shrink_loop (S (N.to_nat (sumN ws0))) width (map e_min col_sizes) ws0
            end
          else Ok (map (fun _ => width) col_sizes));
      let table_width :=
          if vert_row then width
          else sumN col_widths + (N.of_nat (length (filter (fun w => 0 <? w) col_widths)) - 1) in
      do st1 <- with_top st start_block;
      do st2 <- (if negb (table_width =? 0) && o_borders (sopts tp)
                 then with_top st1 (fun s => add_horizontal_border_width s table_width)
                 else Ok st1);
      (* rows *)
      do st_rows <- fold_left
        (fun acc r =>
           do s <- acc;
           match r with
           | RRow rcells rstyle =>
             do apr <- apply_style d s rstyle;
             let '(s1, prow) := apr in
             do cws <- cell_widths vert_row col_widths rcells 0;
             (* children: each cell rendered into its own sub-renderer *)
             do rr <- (fix cells_loop (cells : list rcell) (wsl : list (option N))
                           (s2 : rstate) (subs : list subr) {struct cells}
                        : res (rstate * list subr) :=
                         match cells, wsl with
                         | RCell _ content cstyle_ :: cells', Some w :: wsl' =>
                           do tp2 <- top s2;
                           let s3 := push_sub s2 (new_sub_renderer tp2 w) in
                           do apc <- apply_style d s3 cstyle_;
                           let '(s4, pcell) := apc in
                           do s5 <- render_kids content s4;
                           do s6 <- unwind d pcell s5;
                           do pp <- pop_sub s6;
                           let '(sub, s7) := pp in
                           cells_loop cells' wsl' s7 (subs ++ [sub])
                         | _ :: cells', None :: wsl' => cells_loop cells' wsl' s2 subs
                         | _, _ => Ok (s2, subs)
                         end) rcells cws s1 [];
             let '(s8, subs) := rr in
             do s9 <- (if vert_row
                       then with_top s8 (fun t => append_vert_row t subs)
                       else if existsb (fun c => negb (sub_empty c)) subs
                            then with_top s8 (fun t => append_columns_with_borders t subs true)
                            else Ok s8);
             unwind d prow s9
           end)
        rows (Ok st2);
      fin st_rows
    | ITableRow _ | ITableCell _ | ITableBody _ => Panic 60
    | IFragStart name =>
      do st1 <- with_top' st (fun s => record_frag_start s name); fin st1
    | ISup cs =>
      match sup_digits cs with
      | Some digitstr => do st1 <- inline_text st digitstr; fin st1
      | None =>
        do st1 <- with_top st (start_superscript d);
        do st2 <- render_kids cs st1;
        do st3 <- with_top st2 (end_superscript d); fin st3
      end
    end.

  (* render_tree_to_string *)
  Definition render_tree (o : ropts) (width : N) (tree : rnode) : res subr :=
    do _e <- est_of tree;                       (* phase 1: all estimates *)
    do st <- render_node tree (mkrst [sub_new width o] []);
    match stack st with
    | [s] =>
      let lines := sub_finalise s (links st) in
      match lines with
      | [] => Ok s
      | _ => do s1 <- start_block s; Ok (fmt_links s1 lines)
      end
    | _ => Panic 12
    end.
End Render.
