(* Spec/Cascade.v -- the CSS cascade as "the last maximum of a key" (C19). *)
From H2T Require Import Base Tagged Wrap Css.

(* a declaration of one property, as computed_style feeds it to the cascade cell *)
Record cdecl (A : Type) := mkcd { cd_important : bool; cd_origin : origin; cd_spec : spec; cd_val : A }.
Arguments mkcd {A}. Arguments cd_important {A}. Arguments cd_origin {A}. Arguments cd_spec {A}. Arguments cd_val {A}.

(* importance and origin: agent < user < author < author! < user! < agent! *)
Definition layer {A} (d : cdecl A) : N :=
  match cd_important d, cd_origin d with
  | false, OAgent => 1 | false, OUser => 2 | false, OAuthor => 3
  | true, OAuthor => 4 | true, OUser => 5 | true, OAgent => 6
  | _, ONone => 0
  end.

(* the cascade key: (layer, inline, ids, classes, types), compared lexicographically *)
Definition key {A} (d : cdecl A) : list N :=
  [layer d; if sp_inline (cd_spec d) then 1 else 0; sp_id (cd_spec d); sp_class (cd_spec d); sp_typ (cd_spec d)].
Fixpoint lex_lt (a b : list N) : bool :=
  match a, b with
  | x :: a', y :: b' => (x <? y) || ((x =? y) && lex_lt a' b')
  | _, _ => false
  end.
Definition key_lt {A} (d e : cdecl A) : bool := lex_lt (key d) (key e).
Definition key_eq {A} (d e : cdecl A) : bool := lN_eqb (key d) (key e).

(* index i wins: nothing in the list has a greater key, nothing later has an equal key *)
Definition is_winner {A} (l : list (cdecl A)) (i : nat) : Prop :=
  exists d, nth_error l i = Some d /\
  forall j e, nth_error l j = Some e ->
    key_lt d e = false /\ ((i < j)%nat -> key_eq d e = false).

(* feeding declarations to the cell, as merge_computed_style does *)
Definition feed {A} (w : withspec A) (d : cdecl A) : withspec A :=
  maybe_update w (cd_important d) (cd_origin d) (cd_spec d) (cd_val d).
Definition real_origin {A} (d : cdecl A) : Prop := cd_origin d <> ONone.
