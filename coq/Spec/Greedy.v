(* Spec/Greedy.v -- reference greedy word wrapper (C04), independent of the renderer model. *)
From H2T Require Import Base.

(* characters that reach the output: non-whitespace characters that have a width *)
Definition is_wordchar (c : chr) : bool :=
  negb (ws c) && match cw c with Some _ => true | None => false end.

(* the whitespace-separated words of a text; width-less non-whitespace characters
   (control characters) are deleted without separating words *)
Fixpoint words_aux (t : text) (cur_rev : text) : list text :=
  match t with
  | [] => match cur_rev with [] => [] | _ => [rev cur_rev] end
  | c :: t' =>
    if ws c then match cur_rev with
                 | [] => words_aux t' []
                 | _ => rev cur_rev :: words_aux t' []
                 end
    else if is_wordchar c then words_aux t' (c :: cur_rev)
    else words_aux t' cur_rev
  end.
Definition words_of (t : text) : list text := words_aux t [].

(* state: finished lines, current line, its width *)
Definition gstate := (list text * text * N)%type.

(* a word that does not fit the rest of the line goes, character by character, onto
   fresh lines: a character stays on the current line if it fits, else starts a new
   line; a character wider than a whole line cannot be placed *)
Fixpoint hard_chars (W : N) (ls : list text) (cur : text) (curw : N) (w : text) : res gstate :=
  match w with
  | [] => Ok (ls, cur, curw)
  | c :: w' =>
    if curw + cw0 c <=? W then hard_chars W ls (cur ++ [c]) (curw + cw0 c) w'
    else if W <? cw0 c then TooNarrow
    else match cur with
         | [] => TooNarrow
         | _ => hard_chars W (ls ++ [cur]) [c] (cw0 c) w'
         end
  end.

Definition place_word (W : N) (st : gstate) (w : text) : res gstate :=
  let '(ls, cur, curw) := st in
  let ww := swidth w in
  match cur with
  | [] => if ww <=? W then Ok (ls, w, ww) else hard_chars W ls [] 0 w
  | _ => if curw + 1 + ww <=? W then Ok (ls, cur ++ [spacel L_space] ++ w, curw + 1 + ww)
         else hard_chars W (ls ++ [cur]) [] 0 w
  end.

Fixpoint place_words (W : N) (st : gstate) (ws_ : list text) : res gstate :=
  match ws_ with
  | [] => Ok st
  | w :: ws' => do st' <- place_word W st w; place_words W st' ws'
  end.

Definition greedy (W : N) (ws_ : list text) : res (list text) :=
  do st <- place_words W ([], [], 0) ws_;
  let '(ls, cur, _) := st in
  Ok (match cur with [] => ls | _ => ls ++ [cur] end).
