(* Spec/Pre.v -- reference for preformatted text (C12): source lines, tab expansion. *)
From H2T Require Import Base.

(* split at newline characters (code point 10) *)
Fixpoint split_lines_aux (t : text) (cur_rev : text) : list text :=
  match t with
  | [] => [rev cur_rev]
  | c :: t' => if cp c =? 10 then rev cur_rev :: split_lines_aux t' [] else split_lines_aux t' (c :: cur_rev)
  end.
Definition split_lines (t : text) : list text := split_lines_aux t [].

(* the characters of a source line that occupy columns: a tab becomes spaces up to the next
   multiple of 8 (at least one), any other whitespace character with a width becomes that many
   spaces, width-less characters vanish, other characters are kept *)
Fixpoint expand (t : text) (col : N) : text :=
  match t with
  | [] => []
  | c :: t' =>
    if cp c =? 9 then
      let n := 8 - col mod 8 in
      repeat_chr (spacel L_space) (N.to_nat n) ++ expand t' (col + n)
    else match cw c with
         | None => expand t' col
         | Some w => if ws c then repeat_chr (spacel L_space) (N.to_nat w) ++ expand t' (col + w)
                     else c :: expand t' (col + w)
         end
  end.

(* remove trailing whitespace characters *)
Definition rstrip (t : text) : text := rev (drop_ws (rev t)).

(* a preformatted source fits when every expanded line (trailing spaces included) fits *)
Definition fits (W : N) (src : text) : Prop :=
  Forall (fun l => swidth (expand l 0) <= W) (split_lines src).
