(* Spec/Selector.v -- CSS selector semantics over ancestor chains (C20). *)
From H2T Require Import Base Tagged Wrap Css.

Inductive simple :=
| SElt (n : text) | SCls (c : text) | SHsh (h : text) | SUniv | SNth (a b : Z).

(* a complex selector: compounds joined by descendant / child combinators, leftmost first *)
Inductive sel :=
| SCompound (cs : list simple)
| SDesc (left : sel) (cs : list simple)      (* left cs   *)
| SChild (left : sel) (cs : list simple).    (* left > cs *)

(* idx = a*n + b for some n >= 0 *)
Definition nth_spec (a b idx : Z) : Prop := exists n : Z, (0 <= n)%Z /\ idx = (a * n + b)%Z.

Definition simple_matches (s : simple) (e : anc) : Prop :=
  match s with
  | SElt n => text_eqb (a_name e) n = true
  | SCls c => has_class e c = true
  | SHsh h => has_id e h = true
  | SUniv => True
  | SNth a b => nth_spec a b (a_idx e)
  end.

(* p = the element followed by its ancestors, nearest first ([] = the document node) *)
Fixpoint matches (s : sel) (p : list anc) : Prop :=
  match s with
  | SCompound cs => exists e p', p = e :: p' /\ Forall (fun x => simple_matches x e) cs
  | SChild l cs => exists e p', p = e :: p' /\ Forall (fun x => simple_matches x e) cs /\ matches l p'
  | SDesc l cs => exists e p', p = e :: p' /\ Forall (fun x => simple_matches x e) cs /\
                               exists k, matches l (skipn k p')
  end.

(* what the parser produces for a selector: components right to left *)
Definition comp_of (s : simple) : comp :=
  match s with
  | SElt n => CElement n | SCls c => CClass c | SHsh h => CHash h | SUniv => CStar
  | SNth a b => CNthChild a b
  end.
Fixpoint flatten (s : sel) : list comp :=
  match s with
  | SCompound cs => rev (map comp_of cs)
  | SDesc l cs => rev (map comp_of cs) ++ CCombDescendant :: flatten l
  | SChild l cs => rev (map comp_of cs) ++ CCombChild :: flatten l
  end.

(* well-formed: every compound has at least one simple selector *)
Fixpoint wf (s : sel) : Prop :=
  match s with
  | SCompound cs => cs <> []
  | SDesc l cs | SChild l cs => cs <> [] /\ wf l
  end.
