(* Sub.v -- BorderHoriz, RenderLine, RenderOptions, decorators, SubRenderer
   (text_renderer.rs:808-1801). *)
From H2T Require Import Base Tagged Wrap.

(* ---------------- BorderHoriz ---------------- *)
Inductive seg := Straight | JoinAbove | JoinBelow | JoinCross | StraightVert.

Definition border_new (width : N) : list seg := repeat Straight (N.to_nat width).
Definition border_new_type (width : N) (s : seg) : list seg := repeat s (N.to_nat width).

Definition stretch_to (b : list seg) (width : N) : list seg :=
  b ++ repeat Straight (N.to_nat width - length b).

Fixpoint upd_nth {A} (l : list A) (n : nat) (f : A -> A) : list A :=
  match l, n with
  | [], _ => []
  | x :: l', O => f x :: l'
  | x :: l', S n' => x :: upd_nth l' n' f
  end.

Definition seg_join_above (s : seg) : seg :=
  match s with
  | Straight | JoinAbove => JoinAbove
  | JoinBelow | JoinCross => JoinCross
  | StraightVert => StraightVert
  end.
Definition seg_join_below (s : seg) : seg :=
  match s with
  | Straight | JoinBelow => JoinBelow
  | JoinAbove | JoinCross => JoinCross
  | StraightVert => StraightVert
  end.

Definition join_above (b : list seg) (x : N) : list seg :=
  upd_nth (stretch_to b (x + 1)) (N.to_nat x) seg_join_above.
Definition join_below (b : list seg) (x : N) : list seg :=
  upd_nth (stretch_to b (x + 1)) (N.to_nat x) seg_join_below.

Definition seg_is_join (s : seg) : bool :=
  match s with Straight | StraightVert => false | _ => true end.

(* merge_from_below/above: for (idx, seg) in other: if join: self.join_*(idx+pos) *)
Fixpoint merge_from (jn : list seg -> N -> list seg) (b other : list seg) (pos : N) : list seg :=
  match other with
  | [] => b
  | s :: other' =>
    merge_from jn (if seg_is_join s then jn b pos else b) other' (pos + 1)
  end.
Definition merge_from_below := merge_from join_below.
Definition merge_from_above := merge_from join_above.

Definition bchar (code : N) : chr := mkl code 1 L_border.
Definition seg_char (s : seg) : chr :=
  match s with
  | Straight => bchar 9472      (* ─ *)
  | StraightVert => bchar 47    (* / *)
  | JoinAbove => bchar 9524     (* ┴ *)
  | JoinBelow => bchar 9516     (* ┬ *)
  | JoinCross => bchar 9532     (* ┼ *)
  end.
Definition border_string (b : list seg) : text := map seg_char b.
Definition vbar : chr := bchar 9474.  (* │ *)
Definition to_vertical_lines_above (b : list seg) : text :=
  map (fun s => match s with
                | JoinAbove | JoinCross => vbar
                | _ => spacel L_pad
                end) b.

(* ---------------- RenderLine ---------------- *)
Inductive rline := RText (l : tline) | RLine (b : list seg) (t : tag).

Definition rline_string (r : rline) : text :=
  match r with RText l => tl_string l | RLine b _ => border_string b end.
Definition rline_into_tagged (r : rline) : tline :=
  match r with
  | RText l => l
  | RLine b t => tl_push tl_new (Str (border_string b) t)
  end.
Definition rline_has_content (r : rline) : bool :=
  match r with RText l => negb (tl_is_empty l) | RLine _ _ => false end.

(* ---------------- options, decorators ---------------- *)
Record ropts := mkopts {
  wrap_width : option N;
  o_allow_overflow : bool;
  o_pad : bool;
  o_raw : bool;
  o_borders : bool;
  o_wrap_links : bool;
  o_footnotes : bool;
  o_strike : bool
}.

Record deco := mkdeco {
  d_link_start : text -> text * ann;
  d_link_end : text;
  d_em_start : text * ann;        d_em_end : text;
  d_strong_start : text * ann;    d_strong_end : text;
  d_strike_start : text * ann;    d_strike_end : text;
  d_code_start : text * ann;      d_code_end : text;
  d_pre_first : ann;              d_pre_cont : ann;
  d_image : text -> text -> text * ann;     (* src, title *)
  d_header_prefix : N -> text;
  d_quote_prefix : text;
  d_ul_prefix : text;
  d_ol_prefix : Z -> text;
  d_colours : bool;               (* push_colour/push_bgcolour return Some *)
  d_sup_start : text * ann;       d_sup_end : text
}.

Definition dtext (l : list N) : text := of_asciil L_deco l.
Definition ptext (l : list N) : text := of_asciil L_prefix l.

Definition hashes (level : N) : text := repeat_chr (mkl 35 1 L_prefix) (N.to_nat level) ++ ptext [32].

Definition plain_deco : deco := mkdeco
  (fun _ => (dtext [91], ADefault)) (dtext [93])
  ([], ADefault) [] ([], ADefault) [] ([], ADefault) [] ([], ADefault) []
  ADefault ADefault
  (fun _ title => (dtext [91] ++ title ++ dtext [93], ADefault))
  hashes (ptext [62; 32]) (ptext [42; 32])
  (fun i => ptext (dec_Z i ++ [46; 32]))
  false
  (dtext [94; 123], ADefault) (dtext [125]).

Definition trivial_deco : deco := mkdeco
  (fun _ => ([], ADefault)) []
  ([], ADefault) [] ([], ADefault) [] ([], ADefault) [] ([], ADefault) []
  ADefault ADefault
  (fun _ title => (title, ADefault))
  (fun _ => []) [] [] (fun _ => [])
  false
  (dtext [94; 123], ADefault) (dtext [125]).

Definition rich_deco : deco := mkdeco
  (fun url => ([], ALink url)) []
  ([], AEm) [] ([], AStrong) [] ([], AStrike) [] ([], ACode) []
  (APre false) (APre true)
  (fun src title => (title, AImage src))
  hashes (ptext [62; 32]) (ptext [42; 32])
  (fun i => ptext (dec_Z i ++ [46; 32]))
  true
  (dtext [94; 123], ADefault) (dtext [125]).

(* The custom-decorator family used for C16: every affix/prefix is a given string;
   the ordered prefix is dec(i) ++ suffix. *)
Definition custom_deco (lks lke ems eme sts ste sks ske cds cde ims ime : text)
           (hdr qt ul olsuf : text) : deco := mkdeco
  (fun _ => (relabel L_deco lks, ADefault)) (relabel L_deco lke)
  (relabel L_deco ems, ADefault) (relabel L_deco eme)
  (relabel L_deco sts, ADefault) (relabel L_deco ste)
  (relabel L_deco sks, ADefault) (relabel L_deco ske)
  (relabel L_deco cds, ADefault) (relabel L_deco cde)
  ADefault ADefault
  (fun _ title => (relabel L_deco ims ++ title ++ relabel L_deco ime, ADefault))
  (fun level => flat_map (fun _ => relabel L_prefix hdr) (repeat tt (N.to_nat level)) ++ ptext [32])
  (relabel L_prefix qt) (relabel L_prefix ul)
  (fun i => ptext (dec_Z i) ++ relabel L_prefix olsuf)
  false
  (dtext [94; 123], ADefault) (dtext [125]).

(* ---------------- SubRenderer ---------------- *)
Record subr := mksub {
  swidth_ : N;
  sopts : ropts;
  slines : list rline;
  pending_frags : list elem;
  at_block_end : bool;
  wrapping : option wblock;
  ann_stack : tag;               (* outermost first *)
  filter_depth : nat;            (* text_filter_stack: only filter_text_strikeout is ever pushed *)
  pre_depth : N;
  ws_stack : list wsmode         (* head = top *)
}.

Definition sub_new (width : N) (o : ropts) : subr :=
  mksub width o [] [] false None [] O 0 [].

Definition set_lines (s : subr) (ls : list rline) (pf : list elem) : subr :=
  mksub (swidth_ s) (sopts s) ls pf (at_block_end s) (wrapping s) (ann_stack s)
        (filter_depth s) (pre_depth s) (ws_stack s).
Definition set_abe (s : subr) (b : bool) : subr :=
  mksub (swidth_ s) (sopts s) (slines s) (pending_frags s) b (wrapping s) (ann_stack s)
        (filter_depth s) (pre_depth s) (ws_stack s).
Definition set_wrapping (s : subr) (w : option wblock) : subr :=
  mksub (swidth_ s) (sopts s) (slines s) (pending_frags s) (at_block_end s) w (ann_stack s)
        (filter_depth s) (pre_depth s) (ws_stack s).
Definition set_ann (s : subr) (a : tag) : subr :=
  mksub (swidth_ s) (sopts s) (slines s) (pending_frags s) (at_block_end s) (wrapping s) a
        (filter_depth s) (pre_depth s) (ws_stack s).
Definition set_filter (s : subr) (n : nat) : subr :=
  mksub (swidth_ s) (sopts s) (slines s) (pending_frags s) (at_block_end s) (wrapping s)
        (ann_stack s) n (pre_depth s) (ws_stack s).
Definition set_pre_depth (s : subr) (n : N) : subr :=
  mksub (swidth_ s) (sopts s) (slines s) (pending_frags s) (at_block_end s) (wrapping s)
        (ann_stack s) (filter_depth s) n (ws_stack s).
Definition set_ws_stack (s : subr) (l : list wsmode) : subr :=
  mksub (swidth_ s) (sopts s) (slines s) (pending_frags s) (at_block_end s) (wrapping s)
        (ann_stack s) (filter_depth s) (pre_depth s) l.

(* add_line *)
Definition add_line (s : subr) (l : rline) : subr :=
  match pending_frags s, l with
  | _ :: _, RText tl =>
    let tl1 := fold_left tl_push (pending_frags s) tl_new in
    let tl2 := fold_left tl_push (tv tl) tl1 in
    set_lines s (slines s ++ [RText tl2]) []
  | _, _ => set_lines s (slines s ++ [l]) (pending_frags s)
  end.

Definition extend_lines (s : subr) (ls : list rline) : subr := fold_left add_line ls s.

Definition flush_wrapping (s : subr) : res subr :=
  match wrapping s with
  | None => Ok s
  | Some w =>
    let '(w1, frags) := take_trailing_fragments w in
    do lm <- wb_into_lines_markers w1;
    let s1 := extend_lines (set_wrapping s None) (map RText (fst lm)) in
    Ok (set_lines s1 (slines s1) (pending_frags s1 ++ snd lm ++ frags))
  end.

Definition sub_into_lines (s : subr) : res (list rline) :=
  do s1 <- flush_wrapping s; Ok (slines s1).

Definition newline_chr : chr := mkchr 10 None true 0.
Definition sub_into_string (s : subr) : res text :=
  do ls <- sub_into_lines s;
  Ok (flat_map (fun l => rline_string l ++ [newline_chr]) ls).

Definition width_minus (s : subr) (prefix_len min_width : N) : res N :=
  let new_width := swidth_ s - prefix_len in
  if ((new_width <? min_width) || (swidth_ s <? prefix_len)) && negb (o_allow_overflow (sopts s))
  then TooNarrow
  else Ok (N.max new_width min_width).

Definition ws_mode (s : subr) : wsmode :=
  match ws_stack s with m :: _ => m | [] => WsNormal end.

Definition add_empty_line (s : subr) : res subr :=
  do s1 <- flush_wrapping s;
  Ok (set_abe (add_line s1 (RText tl_new)) false).

(* a nested sub-renderer inherits the text state: annotations, strikeout filters, preformatted
   nesting and the white-space mode stack *)
Definition new_sub_renderer (s : subr) (width : N) : subr :=
  mksub width (sopts s) [] [] false None (ann_stack s) (filter_depth s) (pre_depth s) (ws_stack s).

Definition start_block (s : subr) : res subr :=
  do s1 <- flush_wrapping s;
  do s2 <- (if existsb rline_has_content (slines s1) then add_empty_line s1 else Ok s1);
  Ok (set_abe s2 false).

Definition new_line (s : subr) : res subr := flush_wrapping s.

Definition new_line_hard (s : subr) : res subr :=
  match wrapping s with
  | None => add_empty_line s
  | Some w =>
    if (wordlen w =? 0) && (tlen_ (wline w) =? 0) then add_empty_line s else flush_wrapping s
  end.

Definition add_horizontal_border_width (s : subr) (width : N) : res subr :=
  do s1 <- flush_wrapping s;
  Ok (add_line s1 (RLine (border_new width) (ann_stack s1))).
Definition add_horizontal_border (s : subr) : res subr :=
  add_horizontal_border_width s (swidth_ s).
Definition add_horizontal_line (s : subr) (b : list seg) (t : tag) : res subr :=
  do s1 <- flush_wrapping s;
  Ok (add_line s1 (RLine b t)).

Definition push_ws_mode (s : subr) (m : wsmode) : subr := set_ws_stack s (m :: ws_stack s).
Definition pop_ws_mode (s : subr) : subr := set_ws_stack s (tl (ws_stack s)).
Definition push_preformat (s : subr) : subr := set_pre_depth s (pre_depth s + 1).
Definition pop_preformat (s : subr) : res subr :=
  if 0 <? pre_depth s then Ok (set_pre_depth s (pre_depth s - 1)) else Panic 10.
Definition end_block (s : subr) : subr := set_abe s true.

Definition strike_chr : chr := mkchr 822 (Some 0) false L_strike.
Definition filter_strikeout (t : text) : text :=
  flat_map (fun c => if negb (ws c) && (0 <? cw0 c) then [c; strike_chr] else [c]) t.
Fixpoint apply_filters (n : nat) (t : text) : text :=
  match n with O => t | S n' => apply_filters n' (filter_strikeout t) end.

Definition get_wrapping (s : subr) : wblock :=
  match wrapping s with
  | Some w => w
  | None =>
    let wwidth := match wrap_width (sopts s) with
                  | Some ww => N.min (N.max ww 1) (swidth_ s)
                  | None => swidth_ s
                  end in
    wb_new wwidth (o_pad (sopts s)) (o_allow_overflow (sopts s))
  end.

Definition add_inline_text (d : deco) (s : subr) (t : text) : res subr :=
  if negb (preserve_ws (ws_mode s)) && at_block_end s && all_ws t then Ok s else
  do s1 <- (if at_block_end s then start_block s else Ok s);
  let ft := apply_filters (filter_depth s1) t in
  let w := get_wrapping s1 in
  let main_tag := if 0 <? pre_depth s1 then ann_stack s1 ++ [d_pre_first d] else ann_stack s1 in
  let cont_tag := if 0 <? pre_depth s1 then ann_stack s1 ++ [d_pre_cont d] else ann_stack s1 in
  do w1 <- wb_add_text w ft (ws_mode s1) main_tag cont_tag;
  Ok (set_wrapping s1 (Some w1)).

(* prefixes: (first, rest) = once(first).chain(repeat(rest)) *)
Definition attach_prefix (t : tag) (prefix : text) (l : rline) : rline :=
  match l with
  | RText tl =>
    match prefix with
    | [] => RText tl
    | _ => RText (tl_insert_front tl prefix t)
    end
  | RLine b _ =>
    RText (tl_push (tl_push tl_new (Str prefix t)) (Str (border_string b) t))
  end.

Definition attach_prefixes (t : tag) (first rest : text) (ls : list rline) : list rline :=
  match ls with
  | [] => []
  | l :: ls' => attach_prefix t first l :: map (attach_prefix t rest) ls'
  end.

Definition append_subrender (s other : subr) (first rest : text) : res subr :=
  do s1 <- flush_wrapping s;
  do ols <- sub_into_lines other;
  Ok (extend_lines s1 (attach_prefixes (ann_stack s1) first rest ols)).

(* ---- append_columns_with_borders ---- *)
Fixpoint pad_cell_lines (width : N) (t : tag) (ls : list rline) : res (list rline) :=
  match ls with
  | [] => Ok []
  | RText tl :: ls' =>
    do tl' <- tl_pad_to tl width t;
    do r <- pad_cell_lines width t ls'; Ok (RText tl' :: r)
  | RLine b bt :: ls' =>
    do r <- pad_cell_lines width t ls'; Ok (RLine (stretch_to b width) bt :: r)
  end.

Fixpoint col_line_sets (t : tag) (cols : list subr) : res (list (N * list rline)) :=
  match cols with
  | [] => Ok []
  | c :: cols' =>
    do ls <- sub_into_lines c;
    do pls <- pad_cell_lines (swidth_ c) t ls;
    do r <- col_line_sets t cols'; Ok ((swidth_ c, pls) :: r)
  end.

(* join the vertical lines: for (w,_) in line_sets[..len-1] *)
Fixpoint join_cols (ws_ : list N) (prev next : list seg) (pos : N) : list seg * list seg :=
  match ws_ with
  | [] => (prev, next)
  | [_] => (prev, next)
  | w :: ws' => join_cols ws' (join_below prev (pos + w)) (join_above next (pos + w)) (pos + w + 1)
  end.

Definition replace_last {A} (l : list A) (x : A) : list A := removelast l ++ [x].

(* collapse top borders: returns (prev_border', line_sets') *)
Fixpoint collapse_top (sets : list (N * list rline)) (prev : option (list seg)) (pos : N)
  : res (option (list seg) * list (N * list rline)) :=
  match sets with
  | [] => Ok (prev, [])
  | (w, sub) :: sets' =>
    match sub with
    | RLine line _ :: sub' =>
      match prev with
      | None => Panic 37
      | Some pb =>
        do r <- collapse_top sets' (Some (merge_from_below pb line pos)) (pos + w + 1);
        Ok (fst r, (w, sub') :: snd r)
      end
    | _ =>
      do r <- collapse_top sets' prev (pos + w + 1);
      Ok (fst r, (w, sub) :: snd r)
    end
  end.

(* collapse bottom borders: returns (next_border', sets', column_padding) *)
Fixpoint collapse_bottom (sets : list (N * list rline)) (next : list seg) (pos : N)
  : list seg * list (N * list rline) * list (option text) :=
  match sets with
  | [] => (next, [], [])
  | (w, sub) :: sets' =>
    match olast sub with
    | Some (RLine line _) =>
      let '(n', s', p') := collapse_bottom sets' (merge_from_above next line pos) (pos + w + 1) in
      (n', (w, removelast sub) :: s', Some (to_vertical_lines_above line) :: p')
    | _ =>
      let '(n', s', p') := collapse_bottom sets' next (pos + w + 1) in
      (n', (w, sub) :: s', None :: p')
    end
  end.

(* one output line i of the row *)
Fixpoint row_line (t : tag) (draw : bool) (i : nat) (sets : list (N * list rline))
         (pads : list (option text)) (acc : tline) : tline :=
  match sets with
  | [] => acc
  | (w, ls) :: sets' =>
    let pad := match pads with p :: _ => p | [] => None end in
    let acc1 :=
        match nth_opt ls i with
        | Some (RText tl) => tl_consume acc tl
        | Some (RLine b _) => tl_push acc (Str (border_string b) t)
        | None => tl_push acc (Str (match pad with
                                    | Some p => p
                                    | None => spacesl L_pad w
                                    end) t)
        end in
    let acc2 := match sets' with
                | [] => acc1
                | _ => tl_push_char acc1 (if draw then vbar else spacel L_border) t
                end in
    row_line t draw i sets' (tl pads) acc2
  end.

Fixpoint row_lines (t : tag) (draw : bool) (n : nat) (i : nat) (sets : list (N * list rline))
         (pads : list (option text)) (s : subr) : subr :=
  match n with
  | O => s
  | S n' =>
    row_lines t draw n' (S i) sets pads
              (add_line s (RText (row_line t draw i sets pads tl_new)))
  end.

Definition append_columns_with_borders (s : subr) (cols : list subr) (collapse : bool)
  : res subr :=
  do s1 <- flush_wrapping s;
  let t := ann_stack s1 in
  do sets <- col_line_sets t cols;
  let tot_width := sumN (map fst sets) + (N.of_nat (length sets) - 1) in
  let next0 := border_new tot_width in
  do _chk <- (match sets with [] => Panic 36 | _ => Ok tt end);
  let lastl := olast (slines s1) in
  (* join the vertical lines to both borders *)
  let '(prev1, next1) :=
      match lastl with
      | Some (RLine pb pt) =>
        let '(p, n) := join_cols (map fst sets) pb next0 0 in (Some p, n)
      | _ => (None, next0)
      end in
  do r <- (if collapse
           then
             do ct <- collapse_top sets prev1 0;
             let '(prev2, sets2) := ct in
             let '(next2, sets3, pads) := collapse_bottom sets2 next1 0 in
             Ok (prev2, next2, sets3, pads)
           else Ok (prev1, next1, sets, map (fun _ => None) sets));
  let '(prev3, next3, sets4, pads) := r in
  let lines1 := match lastl, prev3 with
                | Some (RLine _ pt), Some pb => replace_last (slines s1) (RLine pb pt)
                | _, _ => slines s1
                end in
  let s2 := set_lines s1 lines1 (pending_frags s1) in
  let cell_height := fold_left Nat.max (map (fun p => length (snd p)) sets4) O in
  let draw := o_borders (sopts s2) in
  let s3 := row_lines t draw cell_height O sets4 pads s2 in
  Ok (if draw then add_line s3 (RLine next3 t) else s3).

(* ---- append_vert_row ---- *)
Fixpoint vert_cols (s : subr) (cols : list subr) (first : bool) : res subr :=
  match cols with
  | [] => Ok s
  | c :: cols' =>
    do s1 <- (if negb first && o_borders (sopts s)
              then add_horizontal_line s (border_new_type (swidth_ s) StraightVert) (ann_stack s)
              else Ok s);
    do s2 <- append_subrender s1 c [] [];
    vert_cols s2 cols' false
  end.

Definition append_vert_row (s : subr) (cols : list subr) : res subr :=
  do s1 <- flush_wrapping s;
  do s2 <- vert_cols s1 cols true;
  if o_borders (sopts s2) then add_horizontal_border s2 else Ok s2.

Definition sub_empty (s : subr) : bool :=
  match slines s with
  | [] => match wrapping s with Some w => wb_is_empty w | None => true end
  | _ => false
  end.

(* ---- start_*/end_* ---- *)
Definition push_ann (s : subr) (a : ann) : subr := set_ann s (ann_stack s ++ [a]).
Definition pop_ann (s : subr) : subr := set_ann s (removelast (ann_stack s)).

Definition start_deco (d : deco) (s : subr) (p : text * ann) : res subr :=
  add_inline_text d (push_ann s (snd p)) (fst p).
Definition end_deco (d : deco) (s : subr) (e : text) : res subr :=
  do s1 <- add_inline_text d s e; Ok (pop_ann s1).

Definition sub_start_link (d : deco) (s : subr) (target : text) : res subr :=
  start_deco d s (d_link_start d target).
Definition sub_end_link (d : deco) (s : subr) : res subr := end_deco d s (d_link_end d).
Definition start_emphasis d s := start_deco d s (d_em_start d).
Definition end_emphasis d s := end_deco d s (d_em_end d).
Definition start_strong d s := start_deco d s (d_strong_start d).
Definition end_strong d s := end_deco d s (d_strong_end d).
Definition start_code d s := start_deco d s (d_code_start d).
Definition end_code d s := end_deco d s (d_code_end d).
Definition start_superscript d s := start_deco d s (d_sup_start d).
Definition end_superscript d s := end_deco d s (d_sup_end d).

Definition start_strikeout (d : deco) (s : subr) : res subr :=
  do s1 <- start_deco d s (d_strike_start d);
  Ok (if o_strike (sopts s1) then set_filter s1 (S (filter_depth s1)) else s1).
Definition end_strikeout (d : deco) (s : subr) : res subr :=
  do s1 <- (if o_strike (sopts s)
            then match filter_depth s with
                 | O => Panic 11
                 | S n => Ok (set_filter s n)
                 end
            else Ok s);
  end_deco d s1 (d_strike_end d).

Definition add_image (d : deco) (s : subr) (src title : text) : res subr :=
  let p := d_image d src title in
  do s1 <- add_inline_text d (push_ann s (snd p)) (fst p);
  Ok (pop_ann s1).

Definition record_frag_start (s : subr) (name : text) : subr :=
  set_wrapping s (Some (wb_add_element (get_wrapping s) (Frag name))).

Definition push_colour (d : deco) (s : subr) (r g b : N) : subr :=
  if d_colours d then push_ann s (AColour r g b) else s.
Definition pop_colour (d : deco) (s : subr) : subr :=
  if d_colours d then pop_ann s else s.
Definition push_bgcolour (d : deco) (s : subr) (r g b : N) : subr :=
  if d_colours d then push_ann s (ABg r g b) else s.
Definition pop_bgcolour := pop_colour.

(* ---- link footnotes ---- *)
Definition ftext (l : list N) : text := of_asciil L_foot l.

(* TextDecorator::finalise default: "[{}]: {}" lines with the default annotation *)
Fixpoint finalise_from (k : N) (urls : list text) : list tline :=
  match urls with
  | [] => []
  | u :: urls' =>
    tl_from_string (ftext ([91] ++ dec_N k ++ [93; 58; 32]) ++ relabel L_foot u) []
    :: finalise_from (k + 1) urls'
  end.
Definition sub_finalise (s : subr) (links : list text) : list tline :=
  if o_footnotes (sopts s) then finalise_from 1 links else [].

(* inner `for c in s.chars()` of fmt_links *)
Fixpoint fl_chars (s : subr) (t : tag) (cs : text) (buf : text) (wl : tline) (pos : N)
  : subr * text * tline * N :=
  match cs with
  | [] => (s, buf, wl, pos)
  | c :: cs' =>
    let c_w := cw0 c in
    if swidth_ s <? pos + c_w
    then
      let wl1 := match buf with [] => wl | _ => tl_push_str wl buf t end in
      let s1 := add_line s (RText wl1) in
      fl_chars s1 t cs' [c] tl_new (0 + c_w)
    else fl_chars s t cs' (buf ++ [c]) wl (pos + c_w)
  end.

Definition nl_to_space (t : text) : text :=
  map (fun c => if cp c =? 10 then spacel L_foot else c) t.

Fixpoint fl_strings (s : subr) (strs : list (text * tag)) (wl : tline) (pos : N)
  : subr * tline :=
  match strs with
  | [] => (s, wl)
  | (str, _) :: strs' =>
    let str := nl_to_space str in
    let t := [ADefault] in
    let width := swidth str in
    if o_wrap_links (sopts s) && (swidth_ s <? pos + width)
    then
      let '(s1, buf, wl1, pos1) := fl_chars s t str [] wl pos in
      fl_strings s1 strs' (tl_push_str wl1 buf t) pos1
    else fl_strings s strs' (tl_push_str wl str t) (pos + width)
  end.

Fixpoint fmt_links (s : subr) (links : list tline) : subr :=
  match links with
  | [] => s
  | l :: links' =>
    let '(s1, wl) := fl_strings s (tl_tagged_strings l) tl_new 0 in
    fmt_links (add_line s1 (RText wl)) links'
  end.
