(* Tagged.v -- annotations, TaggedString/TaggedLineElement/TaggedLine
   (text_renderer.rs: TaggedLine impl). *)
From H2T Require Import Base.

(* RichAnnotation; the unit annotation of Plain/Trivial is modelled as ADefault
   (Vec<()> tags compare by length, and so do lists of ADefault). *)
Inductive ann : Type :=
| ADefault
| ALink (url : text)
| AImage (src : text)
| AEm | AStrong | AStrike | ACode
| APre (cont : bool)
| AColour (r g b : N)
| ABg (r g b : N).

Definition ann_eqb (a b : ann) : bool :=
  match a, b with
  | ADefault, ADefault => true
  | ALink u, ALink v => text_eqb u v
  | AImage u, AImage v => text_eqb u v
  | AEm, AEm | AStrong, AStrong | AStrike, AStrike | ACode, ACode => true
  | APre x, APre y => Bool.eqb x y
  | AColour r g b, AColour r' g' b' => (r =? r') && (g =? g') && (b =? b')
  | ABg r g b, ABg r' g' b' => (r =? r') && (g =? g') && (b =? b')
  | _, _ => false
  end.

Definition tag := list ann.
Fixpoint tag_eqb (a b : tag) : bool :=
  match a, b with
  | [], [] => true
  | x :: a', y :: b' => ann_eqb x y && tag_eqb a' b'
  | _, _ => false
  end.

Inductive elem : Type :=
| Str (s : text) (t : tag)
| Frag (name : text).

Record tline : Type := mktl { tv : list elem; tlen_ : N }.

Definition tl_new : tline := mktl [] 0.

Definition tl_from_string (s : text) (t : tag) : tline := mktl [Str s t] (swidth s).

Definition elem_text (e : elem) : text := match e with Str s _ => s | Frag _ => [] end.
Definition tl_string (l : tline) : text := flat_map elem_text (tv l).

Definition elem_has_content (e : elem) : bool :=
  match e with Str _ _ => true | Frag _ => false end.
(* TaggedLine::is_empty: no Str element (an empty-string Str counts as content) *)
Definition tl_is_empty (l : tline) : bool := negb (existsb elem_has_content (tv l)).

(* push a Str onto the end of an element vector, merging with an equal-tag last Str *)
Fixpoint v_push_merge (v : list elem) (s : text) (t : tag) : list elem :=
  match v with
  | [] => [Str s t]
  | e :: v' =>
    match v' with
    | [] =>
      match e with
      | Str s0 t0 => if tag_eqb t0 t then [Str (s0 ++ s) t0] else [e; Str s t]
      | Frag _ => [e; Str s t]
      end
    | _ :: _ => e :: v_push_merge v' s t
    end
  end.

Definition tl_push_str (l : tline) (s : text) (t : tag) : tline :=
  match s with
  | [] => l
  | _ => mktl (v_push_merge (tv l) s t) (tlen_ l + swidth s)
  end.

Definition tl_push (l : tline) (e : elem) : tline :=
  match e with
  | Str s t => tl_push_str l s t
  | Frag _ => mktl (tv l ++ [e]) (tlen_ l)
  end.

Definition tl_push_ws (l : tline) (n : N) (t : tag) : tline := tl_push_str l (spaces n) t.
Definition tl_push_wsl (lb : N) (l : tline) (n : N) (t : tag) : tline :=
  tl_push_str l (spacesl lb n) t.

Definition tl_insert_front (l : tline) (s : text) (t : tag) : tline :=
  let len' := tlen_ l + swidth s in
  match tv l with
  | Str s1 t1 :: v' =>
    if tag_eqb t1 t then mktl (Str (s ++ s1) t1 :: v') len'
    else mktl (Str s t :: tv l) len'
  | _ => mktl (Str s t :: tv l) len'
  end.

(* push_char: like push_str of a one-char string, but also merges/creates for
   width-less characters and never skips. *)
Definition tl_push_char (l : tline) (c : chr) (t : tag) : tline :=
  mktl (v_push_merge (tv l) [c] t) (tlen_ l + cw0 c).

(* consume: drain other into self *)
Definition tl_consume (l other : tline) : tline := fold_left tl_push (tv other) l.

(* width(): recomputed width; debug_assert_eq!(len, result) *)
Definition tl_width_raw (l : tline) : N := sumN (map (fun e => swidth (elem_text e)) (tv l)).
Definition tl_width (l : tline) : res N :=
  let r := tl_width_raw l in
  if tlen_ l =? r then Ok r else Panic 40.

Definition tl_pad_to (l : tline) (width : N) (t : tag) : res tline :=
  do w <- tl_width l;
  if w <? width then Ok (tl_push_wsl L_pad l (width - w) t) else Ok l.

Definition tl_tagged_strings (l : tline) : list (text * tag) :=
  flat_map (fun e => match e with Str s t => [(s, t)] | Frag _ => [] end) (tv l).
