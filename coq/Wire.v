(* Wire.v -- decoding of harness cases (lists of N) into model inputs, encoding of
   model outcomes, and the single entry point [run_case] used both by the extracted
   OCaml driver and by [Eval vm_compute] cross-checks. *)
From H2T Require Import Base Tagged Wrap Sub Css Dom Render Api CssParse.

Definition P (A : Type) := list N -> option (A * list N).

Definition p_n : P N := fun l => match l with x :: l' => Some (x, l') | [] => None end.
Definition p_bool : P bool := fun l => match l with x :: l' => Some (negb (x =? 0), l') | [] => None end.

Fixpoint p_many {A} (p : P A) (n : nat) : P (list A) :=
  fun l =>
    match n with
    | O => Some ([], l)
    | S n' => match p l with
              | Some (x, l1) => match p_many p n' l1 with
                                | Some (xs, l2) => Some (x :: xs, l2)
                                | None => None
                                end
              | None => None
              end
    end.
Definition p_list {A} (p : P A) : P (list A) :=
  fun l => match l with n :: l' => p_many p (N.to_nat n) l' | [] => None end.

(* char code = cp*16 + wcode*2 + ws;  wcode 0 = None, k+1 = Some k *)
Definition dec_chr (x : N) : chr :=
  let wsb := negb (x mod 2 =? 0) in
  let wc := (x / 2) mod 8 in
  mkchr (x / 16) (if wc =? 0 then None else Some (wc - 1)) wsb 0.
Definition p_text : P text :=
  fun l => match p_list p_n l with
           | Some (xs, l') => Some (map dec_chr xs, l')
           | None => None
           end.
Definition p_pair {A B} (pa : P A) (pb : P B) : P (A * B) :=
  fun l => match pa l with
           | Some (a, l1) => match pb l1 with
                             | Some (b, l2) => Some ((a, b), l2)
                             | None => None
                             end
           | None => None
           end.

Fixpoint p_node (fuel : nat) : P node :=
  fun l =>
    match fuel with
    | O => None
    | S f =>
      match l with
      | 0 :: h :: l1 =>
        match p_text l1 with
        | Some (name, l2) =>
          match p_list (p_pair p_text p_text) l2 with
          | Some (attrs, l3) =>
            match p_list (p_node f) l3 with
            | Some (kids, l4) => Some (NElem (negb (h =? 0)) name attrs kids, l4)
            | None => None
            end
          | None => None
          end
        | None => None
        end
      | 1 :: l1 => match p_text l1 with Some (t, l2) => Some (NText t, l2) | None => None end
      | 2 :: l1 => Some (NComment, l1)
      | 3 :: l1 => Some (NOther, l1)
      | _ => None
      end
    end.

(* ---- labelling: number the document's characters from 16 in document order ---- *)
Fixpoint label_text (t : text) (k : N) : text * N :=
  match t with
  | [] => ([], k)
  | c :: t' => let '(r, k') := label_text t' (k + 1) in
               (mkchr (cp c) (cw c) (ws c) k :: r, k')
  end.
Fixpoint label_attrs (a : list (text * text)) (k : N) : list (text * text) * N :=
  match a with
  | [] => ([], k)
  | (n, v) :: a' =>
    let '(v', k1) := label_text v k in
    let '(r, k2) := label_attrs a' k1 in ((n, v') :: r, k2)
  end.
Fixpoint label_node (n : node) (k : N) {struct n} : node * N :=
  match n with
  | NElem h name attrs kids =>
    let '(attrs', k1) := label_attrs attrs k in
    let '(kids', k2) :=
        (fix go (ks : list node) (k : N) : list node * N :=
           match ks with
           | [] => ([], k)
           | x :: ks' => let '(x', k1) := label_node x k in
                         let '(r, k2) := go ks' k1 in (x' :: r, k2)
           end) kids k1 in
    (NElem h name attrs' kids', k2)
  | NText t => let '(t', k') := label_text t k in (NText t', k')
  | _ => (n, k)
  end.
Fixpoint label_doc (d : list node) (k : N) : list node :=
  match d with
  | [] => []
  | x :: d' => let '(x', k') := label_node x k in x' :: label_doc d' k'
  end.

(* ---- config ---- *)
Definition p_opt_n : P (option N) :=
  fun l => match l with
           | 0 :: l' => Some (None, l')
           | _ :: v :: l' => Some (Some v, l')
           | _ => None
           end.

Record wirecfg := mkwire {
  w_deco : N; w_custom : list text;
  w_max_wrap : option N; w_doc_css : bool; w_pad : bool; w_overflow : bool;
  w_min_wrap : option N; w_raw : N; w_no_borders : bool; w_no_link_wrap : bool;
  w_footnotes : N; w_strike : N; w_agent_css : list text; w_user_css : list text }.

Definition p_cfg : P wirecfg :=
  fun l =>
    match l with
    | dk :: l0 =>
      match p_list p_text l0 with
      | Some (custom, l1) =>
        match p_opt_n l1 with
        | Some (mw, dc :: pad :: ovf :: l2) =>
          match p_opt_n l2 with
          | Some (minw, raw :: nb :: nlw :: fn :: sk :: l3) =>
            match p_list p_text l3 with
            | Some (acss, l4) =>
              match p_list p_text l4 with
              | Some (ucss, l5) =>
                Some (mkwire dk custom mw (negb (dc =? 0)) (negb (pad =? 0)) (negb (ovf =? 0))
                             minw raw (negb (nb =? 0)) (negb (nlw =? 0)) fn sk acss ucss, l5)
              | None => None
              end
            | None => None
            end
          | _ => None
          end
        | _ => None
        end
      | None => None
      end
    | [] => None
    end.

Definition nth_text (l : list text) (n : nat) : text := nth n l [].

Inductive cfgres := CfgOk (c : config) | CfgCssError | CfgPanic (site : N) | CfgFuel.

Definition add_css_to (which : bool) (c : config) (css : text) : cfgres :=
  match parse_css_rules css with
  | CssOk rules =>
    let sd := c_sd c in
    CfgOk (set_sd c (if which
                     then mkstd (agent_rules sd ++ rules) (user_rules sd) (author_rules sd)
                     else mkstd (agent_rules sd) (user_rules sd ++ rules) (author_rules sd)))
  | CssErr => CfgCssError
  | CssPanic s => CfgPanic s
  | CssFuel => CfgFuel
  end.

Fixpoint add_css_list (which : bool) (c : config) (l : list text) : cfgres :=
  match l with
  | [] => CfgOk c
  | x :: l' => match add_css_to which c x with
               | CfgOk c' => add_css_list which c' l'
               | e => e
               end
  end.

(* builder order used by the harness: base; add_css*; add_agent_css*; use_doc_css;
   pad_block_width; max_wrap_width; allow_width_overflow; min_wrap_width; raw_mode;
   no_table_borders; no_link_wrapping; unicode_strikeout; link_footnotes *)
Definition build_config (w : wirecfg) : cfgres :=
  let s := nth_text (w_custom w) in
  let base :=
      if w_deco w =? 0 then cfg_plain
      else if w_deco w =? 1 then cfg_plain_no_decorate
      else if w_deco w =? 2 then cfg_rich
      else if w_deco w =? 3 then cfg_trivial
      else with_decorator (custom_deco (s 0%nat) (s 1%nat) (s 2%nat) (s 3%nat) (s 4%nat) (s 5%nat)
                                       (s 6%nat) (s 7%nat) (s 8%nat) (s 9%nat) (s 10%nat) (s 11%nat)
                                       (s 12%nat) (s 13%nat) (s 14%nat) (s 15%nat)) in
  match add_css_list false base (w_user_css w) with
  | CfgOk c1 =>
    match add_css_list true c1 (w_agent_css w) with
    | CfgOk c2 =>
      let c3 := if w_doc_css w then set_doc_css c2 else c2 in
      let c4 := if w_pad w then set_pad c3 else c3 in
      let c5 := match w_max_wrap w with Some m => set_max_wrap c4 m | None => c4 end in
      let c6 := if w_overflow w then set_overflow c5 else c5 in
      let c7 := match w_min_wrap w with Some m => set_min_wrap c6 m | None => c6 end in
      let c8 := if w_raw w =? 1 then set_raw c7 true else if w_raw w =? 2 then set_raw c7 false else c7 in
      let c9 := if w_no_borders w then set_no_borders c8 else c8 in
      let c10 := if w_no_link_wrap w then set_no_link_wrap c9 else c9 in
      let c11 := if w_strike w =? 1 then set_strike c10 true
                 else if w_strike w =? 2 then set_strike c10 false else c10 in
      let c12 := if w_footnotes w =? 1 then set_footnotes c11 true
                 else if w_footnotes w =? 2 then set_footnotes c11 false else c11 in
      CfgOk c12
    | e => e
    end
  | e => e
  end.

(* ---- outcome encoding ---- *)
Definition enc_text (t : text) : list N := tlen t :: cps t.
Definition enc_ltext (t : text) : list N := tlen t :: flat_map (fun c => [cp c; lab c]) t.

Definition enc_ann (a : ann) : list N :=
  match a with
  | ADefault => [0]
  | ALink u => 1 :: enc_text u
  | AImage u => 2 :: enc_text u
  | AEm => [3] | AStrong => [4] | AStrike => [5] | ACode => [6]
  | APre b => [7; if b then 1 else 0]
  | AColour r g b => [8; r; g; b]
  | ABg r g b => [9; r; g; b]
  end.
Definition enc_tag (t : tag) : list N := N.of_nat (length t) :: flat_map enc_ann t.
Definition enc_elem (lbl : bool) (e : elem) : list N :=
  match e with
  | Str s t => 0 :: (if lbl then enc_ltext s else enc_text s) ++ enc_tag t
  | Frag n => 1 :: enc_text n
  end.
Definition enc_line (lbl : bool) (l : tline) : list N :=
  N.of_nat (length (tv l)) :: flat_map (enc_elem lbl) (tv l).
Definition enc_lines (lbl : bool) (ls : list tline) : list N :=
  N.of_nat (length ls) :: flat_map (enc_line lbl) ls.

(* outcome kinds: 0 Ok string; 1 TooNarrow; 2 Panic site; 3 OutOfFuel (= Hang);
   4 CssError; 5 Ok lines; 6 Ok labelled lines; 9 malformed case *)
Definition enc_res {A} (okk : A -> list N) (r : res A) : list N :=
  match r with
  | Ok a => okk a
  | TooNarrow => [1]
  | Panic s => [2; s]
  | OutOfFuel => [3]
  end.

(* case = route :: cfg ++ width :: dom
   route 0 = string_from_read, 1 = lines_from_read, 2 = lines with provenance labels,
   3 = add_css only (outcome 0 with the printed rules / 4) *)
Definition run_case (l : list N) : list N :=
  match l with
  | route :: l0 =>
    match p_cfg l0 with
    | Some (w, width :: l1) =>
      match p_list (p_node (length l1)) l1 with
      | Some (doc, _) =>
        match build_config w with
        | CfgCssError => [4]
        | CfgPanic s => [2; s]
        | CfgFuel => [3]
        | CfgOk c =>
          let doc := label_doc doc 16 in
          if route =? 0 then
            enc_res (fun t => 0 :: enc_text t) (string_from_read inline_styles doc_rules c doc width)
          else if route =? 1 then
            enc_res (fun ls => 5 :: enc_lines false ls)
                    (lines_from_read inline_styles doc_rules c doc width)
          else if route =? 2 then
            enc_res (fun ls => 6 :: enc_lines true ls)
                    (lines_from_read inline_styles doc_rules c doc width)
          else [9]
        end
      | None => [9]
      end
    | _ => [9]
    end
  | [] => [9]
  end.
