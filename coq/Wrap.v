(* Wrap.v -- WrappedBlock (text_renderer.rs:343-688), method by method. *)
From H2T Require Import Base Tagged.

Inductive wsmode := WsNormal | WsPre | WsPreWrap.
Definition preserve_ws (m : wsmode) : bool :=
  match m with WsNormal => false | _ => true end.
Definition do_wrap (m : wsmode) : bool :=
  match m with WsPre => false | _ => true end.
Definition is_pre (m : wsmode) : bool := match m with WsPre => true | _ => false end.

Record wblock : Type := mkwb {
  wwidth : N;
  wtext : list tline;          (* finished lines, oldest first *)
  wline : tline;
  spacetag : option tag;
  wword : list elem;           (* word.v; word.len is never read *)
  wordlen : N;
  wslen : N;
  pre_wrapped : bool;
  pad_blocks : bool;
  allow_overflow : bool
}.

Definition wb_new (width : N) (pad ovf : bool) : wblock :=
  mkwb width [] tl_new None [] 0 0 false pad ovf.

Definition set_line (b : wblock) (l : tline) : wblock :=
  mkwb (wwidth b) (wtext b) l (spacetag b) (wword b) (wordlen b) (wslen b)
       (pre_wrapped b) (pad_blocks b) (allow_overflow b).
Definition set_text_line (b : wblock) (t : list tline) (l : tline) : wblock :=
  mkwb (wwidth b) t l (spacetag b) (wword b) (wordlen b) (wslen b)
       (pre_wrapped b) (pad_blocks b) (allow_overflow b).
Definition set_space (b : wblock) (st : option tag) (n : N) : wblock :=
  mkwb (wwidth b) (wtext b) (wline b) st (wword b) (wordlen b) n
       (pre_wrapped b) (pad_blocks b) (allow_overflow b).
Definition set_word (b : wblock) (w : list elem) (n : N) : wblock :=
  mkwb (wwidth b) (wtext b) (wline b) (spacetag b) w n (wslen b)
       (pre_wrapped b) (pad_blocks b) (allow_overflow b).
Definition set_prew (b : wblock) (p : bool) : wblock :=
  mkwb (wwidth b) (wtext b) (wline b) (spacetag b) (wword b) (wordlen b) (wslen b)
       p (pad_blocks b) (allow_overflow b).

Definition word_is_empty (w : list elem) : bool := negb (existsb elem_has_content w).

(* force_flush_line *)
Definition force_flush_line (b : wblock) : res wblock :=
  do l <- (if pad_blocks b
           then tl_pad_to (wline b) (wwidth b)
                          (match spacetag b with Some st => st | None => [] end)
           else Ok (wline b));
  Ok (set_text_line b (wtext b ++ [l]) tl_new).

Definition flush_line (b : wblock) : res wblock :=
  if tl_is_empty (wline b) then Ok b else force_flush_line b.

(* inner `for (idx, c) in piece.s[bpos..].char_indices()` of flush_word_hard_wrap.
   Returns (taken, lineleft, wpos). *)
(* the zero-width characters (combining marks) that follow a character taken by the overflow
   branch stay with it *)
Fixpoint take_zw (s : text) : text :=
  match s with
  | c :: s' => match cw c with Some 0 => c :: take_zw s' | _ => [] end
  | [] => []
  end.

Fixpoint hw_scan (ovf : bool) (line0 : tline) (first : bool) (s : text) (taken_rev : text)
         (lineleft wpos : N) : res (text * N * N) :=
  match s with
  | [] => Ok ([], lineleft, wpos)          (* loop ended without break: split_idx = 0 *)
  | c :: s' =>
    match cw c with
    | None => Panic 4
    | Some c_w =>
      if c_w <=? lineleft
      then hw_scan ovf line0 false s' (c :: taken_rev) (lineleft - c_w) (wpos + c_w)
      else if first
      then do lw <- tl_width line0;
           if lw =? 0
           then if ovf then Ok (c :: take_zw s', lineleft, wpos + c_w) else TooNarrow
           else Ok (rev taken_rev, lineleft, wpos)
      else Ok (rev taken_rev, lineleft, wpos)
    end
  end.

(* `while w - wpos > lineleft` for one piece; rest = piece.s[bpos..], consumed = (bpos > 0) *)
Fixpoint hw_piece (fuel : nat) (b : wblock) (t : tag) (w : N) (rest : text)
         (consumed : bool) (lineleft wpos : N) : res (wblock * N) :=
  match fuel with
  | O => OutOfFuel
  | S f =>
    do rem <- usub 8 w wpos;
    if lineleft <? rem
    then
      do r <- hw_scan (allow_overflow b) (wline b) true rest [] lineleft wpos;
      let '(taken, _, wpos') := r in
      let b1 := set_line b (tl_push (wline b) (Str taken t)) in
      do b2 <- force_flush_line b1;
      let rest' := skipn (length taken) rest in
      let consumed' := consumed || negb (match taken with [] => true | _ => false end) in
      hw_piece f b2 t w rest' consumed' (wwidth b2) wpos'
    else
      if negb consumed
      then do ll <- usub 5 lineleft w;
           Ok (set_line b (tl_push (wline b) (Str rest t)), ll)
      else match rest with
           | [] => Ok (b, lineleft)
           | _ => do ll <- usub 5 lineleft (w - wpos);
                  Ok (set_line b (tl_push (wline b) (Str rest t)), ll)
           end
  end.

Fixpoint hw_elems (b : wblock) (els : list elem) (lineleft : N) : res wblock :=
  match els with
  | [] => Ok b
  | Frag n :: els' => hw_elems (set_line b (tl_push (wline b) (Frag n))) els' lineleft
  | Str s t :: els' =>
    do r <- hw_piece (2 * length s + 2) b t (swidth s) s false lineleft 0;
    let '(b', ll) := r in hw_elems b' els' ll
  end.

Definition flush_word_hard_wrap (b : wblock) : res wblock :=
  do lineleft <- usub 3 (wwidth b) (tlen_ (wline b));
  let els := wword b in
  hw_elems (set_word b [] (wordlen b)) els lineleft.

(* `while self.wslen > 0 { ... }` in flush_word *)
Fixpoint ws_loop (fuel : nat) (b : wblock) : res wblock :=
  if wslen b =? 0 then Ok b else
  match fuel with
  | O => OutOfFuel
  | S f =>
    if wwidth b =? 0 then Ok (set_space b (spacetag b) 0) else
    let to_copy := N.min (wslen b) (wwidth b) in
    match spacetag b with
    | None => Panic 6
    | Some st =>
      let b1 := set_line b (tl_push_wsl L_space (wline b) to_copy st) in
      do b2 <- (if to_copy =? wwidth b then flush_line b1 else Ok b1);
      ws_loop f (set_space b2 (spacetag b2) (wslen b2 - to_copy))
    end
  end.

Definition flush_word (b : wblock) (m : wsmode) : res wblock :=
  if word_is_empty (wword b) then Ok (set_word b (wword b) 0) else
  do space_in_line <- usub 1 (wwidth b) (tlen_ (wline b));
  let space_needed := wslen b + wordlen b in
  if space_needed <=? space_in_line
  then
    do b1 <- (if 0 <? wslen b
              then match spacetag b with
                   | None => Panic 2
                   | Some st =>
                     Ok (set_space (set_line b (tl_push (wline b) (Str (spacesl L_space (wslen b)) st)))
                                   None 0)
                   end
              else Ok b);
    let l' := fold_left tl_push (wword b1) (wline b1) in
    Ok (set_word (set_line b1 l') [] 0)
  else
    do b1 <- (if negb (do_wrap m)
              then if space_in_line <=? wslen b
                   then Ok (set_space b (spacetag b) (wslen b - space_in_line))
                   else if 0 <? wslen b
                        then match spacetag b with
                             | None => Panic 2
                             | Some st =>
                               Ok (set_space (set_line b (tl_push_wsl L_space (wline b) (wslen b) st))
                                             None 0)
                             end
                        else Ok b
              else Ok (set_space b None 0));
    do b2 <- flush_line b1;
    let b3 := if is_pre m then set_prew b2 true else b2 in
    do b4 <- ws_loop (S (N.to_nat (wslen b3))) b3;
    let b5 := set_space b4 None (wslen b4) in
    do b6 <- flush_word_hard_wrap b5;
    Ok (set_word b6 (wword b6) 0).

Definition wb_flush (b : wblock) : res wblock :=
  do b1 <- flush_word b WsNormal;
  flush_line b1.

Definition wb_into_lines (b : wblock) : res (list tline) :=
  do b1 <- wb_flush b; Ok (wtext b1).

(* into_lines_and_markers: the lines, plus the markers left on a last line that has no text (such
   a line is never emitted) *)
Definition wb_into_lines_markers (b : wblock) : res (list tline * list elem) :=
  do b1 <- wb_flush b; Ok (wtext b1, tv (wline b1)).

(* the elements of a word split into (everything up to its last element with content, the markers
   that trail it); for a word without content: ([], the whole word) *)
Fixpoint trailing_frags (w : list elem) : list elem * list elem :=
  match w with
  | [] => ([], [])
  | e :: w' =>
    let '(p, t) := trailing_frags w' in
    match p with
    | [] => if elem_has_content e then ([e], t) else ([], e :: t)
    | _ :: _ => (e :: p, t)
    end
  end.

(* the markers that trail the last text of the pending word go to the next line *)
Definition take_trailing_fragments (b : wblock) : wblock * list elem :=
  let '(p, t) := trailing_frags (wword b) in (set_word b p (wordlen b), t).

(* tab loop: `while pos % 8 != 0 || !at_least_one_space`.  t = the local `tag`; tw = what `tag`
   becomes when the tab crosses the width (wrap_tag in Pre mode, else unchanged); the boolean
   result says whether that happened. *)
Fixpoint tab_loop (fuel : nat) (b : wblock) (t tw : tag) (pos : N) (one : bool) (fl : bool)
  : res (wblock * bool) :=
  if negb (pos mod 8 =? 0) || negb one then
    match fuel with
    | O => OutOfFuel
    | S f =>
      if wwidth b =? 0 then Ok (b, fl) else
      if wwidth b <=? pos
      then do b1 <- flush_line b; tab_loop f b1 tw tw 0 one true
      else tab_loop f (set_line b (tl_push_char (wline b) (spacel L_space) t)) t tw (pos + 1) true fl
    end
  else Ok (b, fl).

(* One character of add_text.  usewrap = the local `tag` currently is wrap_tag. *)
Definition add_char (m : wsmode) (main_tag wrap_tag : tag) (st : wblock * bool) (c : chr)
  : res (wblock * bool) :=
  let '(b, usewrap) := st in
  do b <- (if ws c && (0 <? wordlen b) then flush_word b m else Ok b);
  let t := if usewrap then wrap_tag else main_tag in
  if ws c then
    if preserve_ws m then
      if cp c =? 10 then
        do b1 <- force_flush_line b;
        Ok (set_prew (set_space b1 None 0) false, false)
      else if cp c =? 9 then
        do r <- tab_loop 40 b t (if is_pre m then wrap_tag else t) (tlen_ (wline b) + wslen b) false false;
        let sw := is_pre m && snd r in
        Ok (if sw then set_prew (fst r) true else fst r, usewrap || sw)
      else
        match cw c with
        | None => Ok (b, usewrap)
        | Some cwidth =>
          if wwidth b <? tlen_ (wline b) + wslen b + cwidth
          then
            let b1 := set_space b (spacetag b) 0 in
            do b2 <- flush_line b1;
            if do_wrap m
            then Ok (set_prew b2 false, usewrap)
            else Ok (set_prew (set_space b2 (Some wrap_tag) (wslen b2 + cwidth)) true, true)
          else Ok (set_space b (Some t) (wslen b + cwidth), usewrap)
        end
    else
      if (0 <? tlen_ (wline b)) && (wslen b =? 0)
      then Ok (set_space b (Some t) 1, usewrap)
      else Ok (b, usewrap)
  else
    match cw c with
    | None => Ok (b, usewrap)
    | Some cwidth =>
      let wl := wordlen b + cwidth in
      let sw := is_pre m && (wwidth b <? tlen_ (wline b) + wslen b + wl) in
      let b1 := if sw then set_prew b true else b in
      let usewrap' := usewrap || sw in
      let t' := if usewrap' then wrap_tag else main_tag in
      Ok (set_word b1 (v_push_merge (wword b1) [c] t') wl, usewrap')
    end.

Fixpoint add_chars (m : wsmode) (main_tag wrap_tag : tag) (st : wblock * bool) (s : text)
  : res (wblock * bool) :=
  match s with
  | [] => Ok st
  | c :: s' => do st' <- add_char m main_tag wrap_tag st c; add_chars m main_tag wrap_tag st' s'
  end.

Definition wb_add_text (b : wblock) (s : text) (m : wsmode) (main_tag wrap_tag : tag)
  : res wblock :=
  do r <- add_chars m main_tag wrap_tag (b, pre_wrapped b) s;
  Ok (fst r).

Definition wb_add_element (b : wblock) (e : elem) : wblock :=
  match e with
  | Str s t => match s with
               | [] => b
               | _ => set_word b (v_push_merge (wword b) s t) (wordlen b)
               end
  | Frag _ => set_word b (wword b ++ [e]) (wordlen b)
  end.

Definition wb_text_len (b : wblock) : N :=
  N.of_nat (length (wtext b)) + tlen_ (wline b) + wordlen b.
Definition wb_is_empty (b : wblock) : bool := wb_text_len b =? 0.
