//! Core of the harness: PRNG, configuration, wire encoding, running the implementation.
use html2text::config::{self, Config};
use html2text::render::{RichAnnotation, TaggedLine, TaggedLineElement, TextDecorator};
use html2text::verif::{verif_dump_dom, VerifNode};
use std::fmt::Write as _;
use unicode_width::{UnicodeWidthChar, UnicodeWidthStr};

// ---------------------------------------------------------------- PRNG
#[derive(Clone)]
pub struct Rng(pub u64);
impl Rng {
    pub fn new(seed: u64) -> Rng {
        Rng(seed.wrapping_mul(0x9E3779B97F4A7C15) ^ 0xD1B54A32D192ED03)
    }
    pub fn next(&mut self) -> u64 {
        // splitmix64
        self.0 = self.0.wrapping_add(0x9E3779B97F4A7C15);
        let mut z = self.0;
        z = (z ^ (z >> 30)).wrapping_mul(0xBF58476D1CE4E5B9);
        z = (z ^ (z >> 27)).wrapping_mul(0x94D049BB133111EB);
        z ^ (z >> 31)
    }
    pub fn below(&mut self, n: usize) -> usize {
        if n == 0 {
            0
        } else {
            (self.next() % (n as u64)) as usize
        }
    }
    pub fn range(&mut self, lo: usize, hi: usize) -> usize {
        lo + self.below(hi - lo + 1)
    }
    pub fn chance(&mut self, num: usize, den: usize) -> bool {
        self.below(den) < num
    }
    pub fn pick<'a, T>(&mut self, v: &'a [T]) -> &'a T {
        &v[self.below(v.len())]
    }
    pub fn fork(&mut self) -> Rng {
        Rng(self.next())
    }
}

// ---------------------------------------------------------------- configuration
#[derive(Clone, Debug, Default, PartialEq)]
pub struct Cfg {
    pub deco: u8, // 0 plain, 1 plain_no_decorate, 2 rich, 3 trivial, 4 custom
    pub custom: Vec<String>, // 16 strings for deco 4
    pub max_wrap: Option<usize>,
    pub doc_css: bool,
    pub pad: bool,
    pub overflow: bool,
    pub min_wrap: Option<usize>,
    pub raw: u8, // 0 unset, 1 raw_mode(true), 2 raw_mode(false)
    pub no_borders: bool,
    pub no_link_wrap: bool,
    pub footnotes: u8, // 0 unset, 1 true, 2 false
    pub strike: u8,    // 0 unset, 1 true, 2 false
    pub agent_css: Vec<String>,
    pub user_css: Vec<String>,
}

pub fn hex(s: &[u8]) -> String {
    let mut o = String::with_capacity(s.len() * 2 + 1);
    o.push('x');
    for b in s {
        write!(o, "{:02x}", b).unwrap();
    }
    o
}
pub fn unhex(s: &str) -> Vec<u8> {
    let s = &s[1..];
    (0..s.len() / 2)
        .map(|i| u8::from_str_radix(&s[2 * i..2 * i + 2], 16).unwrap())
        .collect()
}

impl Cfg {
    pub fn to_tokens(&self) -> String {
        let mut o = String::new();
        write!(o, "{} {}", self.deco, self.custom.len()).unwrap();
        for s in &self.custom {
            write!(o, " {}", hex(s.as_bytes())).unwrap();
        }
        match self.max_wrap {
            None => o.push_str(" n"),
            Some(v) => write!(o, " {}", v).unwrap(),
        }
        write!(o, " {} {} {}", self.doc_css as u8, self.pad as u8, self.overflow as u8).unwrap();
        match self.min_wrap {
            None => o.push_str(" n"),
            Some(v) => write!(o, " {}", v).unwrap(),
        }
        write!(
            o,
            " {} {} {} {} {}",
            self.raw, self.no_borders as u8, self.no_link_wrap as u8, self.footnotes, self.strike
        )
        .unwrap();
        write!(o, " {}", self.agent_css.len()).unwrap();
        for s in &self.agent_css {
            write!(o, " {}", hex(s.as_bytes())).unwrap();
        }
        write!(o, " {}", self.user_css.len()).unwrap();
        for s in &self.user_css {
            write!(o, " {}", hex(s.as_bytes())).unwrap();
        }
        o
    }
    pub fn from_tokens<'a>(it: &mut impl Iterator<Item = &'a str>) -> Cfg {
        let mut c = Cfg::default();
        c.deco = it.next().unwrap().parse().unwrap();
        let n: usize = it.next().unwrap().parse().unwrap();
        for _ in 0..n {
            c.custom
                .push(String::from_utf8(unhex(it.next().unwrap())).unwrap());
        }
        let t = it.next().unwrap();
        c.max_wrap = if t == "n" { None } else { Some(t.parse().unwrap()) };
        c.doc_css = it.next().unwrap() == "1";
        c.pad = it.next().unwrap() == "1";
        c.overflow = it.next().unwrap() == "1";
        let t = it.next().unwrap();
        c.min_wrap = if t == "n" { None } else { Some(t.parse().unwrap()) };
        c.raw = it.next().unwrap().parse().unwrap();
        c.no_borders = it.next().unwrap() == "1";
        c.no_link_wrap = it.next().unwrap() == "1";
        c.footnotes = it.next().unwrap().parse().unwrap();
        c.strike = it.next().unwrap().parse().unwrap();
        let n: usize = it.next().unwrap().parse().unwrap();
        for _ in 0..n {
            c.agent_css
                .push(String::from_utf8(unhex(it.next().unwrap())).unwrap());
        }
        let n: usize = it.next().unwrap().parse().unwrap();
        for _ in 0..n {
            c.user_css
                .push(String::from_utf8(unhex(it.next().unwrap())).unwrap());
        }
        c
    }
    /// The model's wire encoding (see coq/Wire.v p_cfg).
    pub fn to_wire(&self, out: &mut Vec<u64>) {
        out.push(self.deco as u64);
        out.push(self.custom.len() as u64);
        for s in &self.custom {
            enc_text(s, out);
        }
        match self.max_wrap {
            None => out.push(0),
            Some(v) => {
                out.push(1);
                out.push(v as u64)
            }
        }
        out.push(self.doc_css as u64);
        out.push(self.pad as u64);
        out.push(self.overflow as u64);
        match self.min_wrap {
            None => out.push(0),
            Some(v) => {
                out.push(1);
                out.push(v as u64)
            }
        }
        out.push(self.raw as u64);
        out.push(self.no_borders as u64);
        out.push(self.no_link_wrap as u64);
        out.push(self.footnotes as u64);
        out.push(self.strike as u64);
        out.push(self.agent_css.len() as u64);
        for s in &self.agent_css {
            enc_text(s, out);
        }
        out.push(self.user_css.len() as u64);
        for s in &self.user_css {
            enc_text(s, out);
        }
    }
    /// Strings handed to the model whose width arithmetic must be regular.
    pub fn regular(&self) -> bool {
        self.custom.iter().all(|s| is_regular(s))
    }
}

pub fn roman(i: i64) -> String {
    if i <= 0 || i >= 4000 {
        return i.to_string();
    }
    let mut n = i;
    let mut o = String::new();
    for (v, r) in [(1000, "m"), (900, "cm"), (500, "d"), (400, "cd"), (100, "c"), (90, "xc"), (50, "l"), (40, "xl"), (10, "x"), (9, "ix"), (5, "v"), (4, "iv"), (1, "i")] {
        while n >= v {
            o.push_str(r);
            n -= v;
        }
    }
    o
}
/// A decorator family parameterised by strings (C16).
#[derive(Clone, Debug)]
pub struct CustomDeco {
    pub s: Vec<String>,
}
impl TextDecorator for CustomDeco {
    type Annotation = ();
    fn decorate_link_start(&mut self, _url: &str) -> (String, ()) {
        (self.s[0].clone(), ())
    }
    fn decorate_link_end(&mut self) -> String {
        self.s[1].clone()
    }
    fn decorate_em_start(&self) -> (String, ()) {
        (self.s[2].clone(), ())
    }
    fn decorate_em_end(&self) -> String {
        self.s[3].clone()
    }
    fn decorate_strong_start(&self) -> (String, ()) {
        (self.s[4].clone(), ())
    }
    fn decorate_strong_end(&self) -> String {
        self.s[5].clone()
    }
    fn decorate_strikeout_start(&self) -> (String, ()) {
        (self.s[6].clone(), ())
    }
    fn decorate_strikeout_end(&self) -> String {
        self.s[7].clone()
    }
    fn decorate_code_start(&self) -> (String, ()) {
        (self.s[8].clone(), ())
    }
    fn decorate_code_end(&self) -> String {
        self.s[9].clone()
    }
    fn decorate_preformat_first(&self) {}
    fn decorate_preformat_cont(&self) {}
    fn decorate_image(&mut self, _src: &str, title: &str) -> (String, ()) {
        (format!("{}{}{}", self.s[10], title, self.s[11]), ())
    }
    fn header_prefix(&self, level: usize) -> String {
        self.s[12].repeat(level) + " "
    }
    fn quote_prefix(&self) -> String {
        self.s[13].clone()
    }
    fn unordered_item_prefix(&self) -> String {
        self.s[14].clone()
    }
    fn ordered_item_prefix(&self, i: i64) -> String {
        if self.s[15] == "ROMAN" {
            // a numbering whose width is not monotone in the number (implementation-only cases:
            // the model's custom family numbers in decimal)
            return roman(i) + ". ";
        }
        format!("{}{}", i, self.s[15])
    }
    fn make_subblock_decorator(&self) -> Self {
        self.clone()
    }
}

pub fn apply_opts<D: TextDecorator>(
    mut c: Config<D>,
    cfg: &Cfg,
) -> Result<Config<D>, html2text::Error> {
    for s in &cfg.user_css {
        c = c.add_css(s)?;
    }
    for s in &cfg.agent_css {
        c = c.add_agent_css(s)?;
    }
    if cfg.doc_css {
        c = c.use_doc_css();
    }
    if cfg.pad {
        c = c.pad_block_width();
    }
    if let Some(m) = cfg.max_wrap {
        c = c.max_wrap_width(m);
    }
    if cfg.overflow {
        c = c.allow_width_overflow();
    }
    if let Some(m) = cfg.min_wrap {
        c = c.min_wrap_width(m);
    }
    match cfg.raw {
        1 => c = c.raw_mode(true),
        2 => c = c.raw_mode(false),
        _ => {}
    }
    if cfg.no_borders {
        c = c.no_table_borders();
    }
    if cfg.no_link_wrap {
        c = c.no_link_wrapping();
    }
    match cfg.strike {
        1 => c = c.unicode_strikeout(true),
        2 => c = c.unicode_strikeout(false),
        _ => {}
    }
    match cfg.footnotes {
        1 => c = c.link_footnotes(true),
        2 => c = c.link_footnotes(false),
        _ => {}
    }
    Ok(c)
}

// ---------------------------------------------------------------- text encoding
pub fn enc_char(c: char) -> u64 {
    let wcode = match UnicodeWidthChar::width(c) {
        None => 0,
        Some(w) => (w as u64 + 1).min(7),
    };
    (c as u64) * 16 + wcode * 2 + (c.is_whitespace() as u64)
}
pub fn enc_text(s: &str, out: &mut Vec<u64>) {
    out.push(s.chars().count() as u64);
    for c in s.chars() {
        out.push(enc_char(c));
    }
}
pub fn enc_cps(s: &str, out: &mut Vec<u64>) {
    out.push(s.chars().count() as u64);
    for c in s.chars() {
        out.push(c as u64);
    }
}

fn char_w(c: char) -> usize {
    UnicodeWidthChar::width(c).unwrap_or(0)
}

/// Text on which UnicodeWidthStr::width is the sum of the per-character widths for
/// every window the renderer may slice out: checked on the whole string, on every
/// window of up to 4 characters, with whitespace runs collapsed to one space and
/// with whitespace removed.
pub fn is_regular(s: &str) -> bool {
    fn additive(cs: &[char]) -> bool {
        let whole: String = cs.iter().collect();
        if UnicodeWidthStr::width(whole.as_str()) != cs.iter().map(|&c| char_w(c)).sum::<usize>() {
            return false;
        }
        for win in 1..=4usize {
            if cs.len() < win {
                break;
            }
            for i in 0..=(cs.len() - win) {
                let sub: String = cs[i..i + win].iter().collect();
                if UnicodeWidthStr::width(sub.as_str())
                    != cs[i..i + win].iter().map(|&c| char_w(c)).sum::<usize>()
                {
                    return false;
                }
            }
        }
        true
    }
    // characters that survive into tagged strings: non-whitespace with Some width
    let kept: Vec<char> = s
        .chars()
        .filter(|c| !c.is_whitespace() && UnicodeWidthChar::width(*c).is_some())
        .collect();
    if !additive(&kept) {
        return false;
    }
    let mut collapsed: Vec<char> = Vec::new();
    let mut in_ws = false;
    for c in s.chars() {
        if c.is_whitespace() {
            if !in_ws {
                collapsed.push(' ');
            }
            in_ws = true;
        } else if UnicodeWidthChar::width(c).is_some() {
            collapsed.push(c);
            in_ws = false;
        }
    }
    additive(&collapsed)
}

/// hrefs end up verbatim (newline -> space) in footnote lines
pub fn is_regular_verbatim(s: &str) -> bool {
    let cs: Vec<char> = s.chars().map(|c| if c == '\n' { ' ' } else { c }).collect();
    let whole: String = cs.iter().collect();
    if UnicodeWidthStr::width(whole.as_str()) != cs.iter().map(|&c| char_w(c)).sum::<usize>() {
        return false;
    }
    for win in 1..=4usize {
        if cs.len() < win {
            break;
        }
        for i in 0..=(cs.len() - win) {
            let sub: String = cs[i..i + win].iter().collect();
            if UnicodeWidthStr::width(sub.as_str())
                != cs[i..i + win].iter().map(|&c| char_w(c)).sum::<usize>()
            {
                return false;
            }
        }
    }
    true
}

pub fn enc_dom(nodes: &[VerifNode], out: &mut Vec<u64>, regular: &mut bool) {
    out.push(nodes.len() as u64);
    for n in nodes {
        enc_node(n, out, regular);
    }
}
fn enc_node(n: &VerifNode, out: &mut Vec<u64>, regular: &mut bool) {
    match n {
        VerifNode::Elem(html, name, attrs, kids) => {
            out.push(0);
            out.push(*html as u64);
            enc_text(name, out);
            out.push(attrs.len() as u64);
            for (k, v) in attrs {
                enc_text(k, out);
                enc_text(v, out);
                if *html && name == "img" && k == "alt" && !is_regular(v) {
                    *regular = false;
                }
                if *html && name == "a" && k == "href" && !is_regular_verbatim(v) {
                    *regular = false;
                }
            }
            enc_dom(kids, out, regular);
        }
        VerifNode::Text(t) => {
            out.push(1);
            enc_text(t, out);
            if !is_regular(t) {
                *regular = false;
            }
        }
        VerifNode::Comment => out.push(2),
        VerifNode::Other => out.push(3),
    }
}

// ---------------------------------------------------------------- outcomes
#[derive(Clone, Debug, PartialEq)]
pub enum Ann {
    Default,
    Link(String),
    Image(String),
    Em,
    Strong,
    Strike,
    Code,
    Pre(bool),
    Colour(u8, u8, u8),
    Bg(u8, u8, u8),
}
#[derive(Clone, Debug, PartialEq)]
pub enum Elem {
    Str(String, Vec<Ann>),
    Frag(String),
}
#[derive(Clone, Debug, PartialEq)]
pub enum Outcome {
    Str(String),
    Lines(Vec<Vec<Elem>>),
    TooNarrow,
    CssError,
    Panic(String),
    Hang,
    OtherErr(String),
}
impl Outcome {
    pub fn kind(&self) -> &'static str {
        match self {
            Outcome::Str(_) | Outcome::Lines(_) => "ok",
            Outcome::TooNarrow => "too_narrow",
            Outcome::CssError => "css_error",
            Outcome::Panic(_) => "panic",
            Outcome::Hang => "hang",
            Outcome::OtherErr(_) => "other_err",
        }
    }
    pub fn is_ok(&self) -> bool {
        matches!(self, Outcome::Str(_) | Outcome::Lines(_))
    }
    /// The rendered text, lines joined with '\n' (both routes).
    pub fn text(&self) -> Option<String> {
        match self {
            Outcome::Str(s) => Some(s.clone()),
            Outcome::Lines(ls) => {
                let mut o = String::new();
                for l in ls {
                    for e in l {
                        if let Elem::Str(s, _) = e {
                            o.push_str(s);
                        }
                    }
                    o.push('\n');
                }
                Some(o)
            }
            _ => None,
        }
    }
    pub fn to_wire(&self, out: &mut Vec<u64>) {
        match self {
            Outcome::Str(s) => {
                out.push(0);
                enc_cps(s, out);
            }
            Outcome::TooNarrow => out.push(1),
            Outcome::Panic(_) => {
                out.push(2);
                out.push(0)
            }
            Outcome::Hang => out.push(3),
            Outcome::CssError => out.push(4),
            Outcome::OtherErr(_) => out.push(7),
            Outcome::Lines(ls) => {
                out.push(5);
                out.push(ls.len() as u64);
                for l in ls {
                    out.push(l.len() as u64);
                    for e in l {
                        match e {
                            Elem::Str(s, tag) => {
                                out.push(0);
                                enc_cps(s, out);
                                out.push(tag.len() as u64);
                                for a in tag {
                                    match a {
                                        Ann::Default => out.push(0),
                                        Ann::Link(u) => {
                                            out.push(1);
                                            enc_cps(u, out)
                                        }
                                        Ann::Image(u) => {
                                            out.push(2);
                                            enc_cps(u, out)
                                        }
                                        Ann::Em => out.push(3),
                                        Ann::Strong => out.push(4),
                                        Ann::Strike => out.push(5),
                                        Ann::Code => out.push(6),
                                        Ann::Pre(b) => {
                                            out.push(7);
                                            out.push(*b as u64)
                                        }
                                        Ann::Colour(r, g, b) => {
                                            out.extend([8, *r as u64, *g as u64, *b as u64])
                                        }
                                        Ann::Bg(r, g, b) => {
                                            out.extend([9, *r as u64, *g as u64, *b as u64])
                                        }
                                    }
                                }
                            }
                            Elem::Frag(n) => {
                                out.push(1);
                                enc_cps(n, out);
                            }
                        }
                    }
                }
            }
        }
    }
}

fn conv_rich(a: &RichAnnotation) -> Ann {
    match a {
        RichAnnotation::Default => Ann::Default,
        RichAnnotation::Link(u) => Ann::Link(u.clone()),
        RichAnnotation::Image(u) => Ann::Image(u.clone()),
        RichAnnotation::Emphasis => Ann::Em,
        RichAnnotation::Strong => Ann::Strong,
        RichAnnotation::Strikeout => Ann::Strike,
        RichAnnotation::Code => Ann::Code,
        RichAnnotation::Preformat(b) => Ann::Pre(*b),
        RichAnnotation::Colour(c) => Ann::Colour(c.r, c.g, c.b),
        RichAnnotation::BgColour(c) => Ann::Bg(c.r, c.g, c.b),
        _ => Ann::Default,
    }
}

fn conv_lines<A: std::fmt::Debug + Eq + PartialEq + Clone + Default>(ls: Vec<TaggedLine<Vec<A>>>, f: impl Fn(&A) -> Ann) -> Vec<Vec<Elem>> {
    ls.iter()
        .map(|l| {
            l.iter()
                .map(|e| match e {
                    TaggedLineElement::Str(ts) => {
                        Elem::Str(ts.s.clone(), ts.tag.iter().map(&f).collect())
                    }
                    TaggedLineElement::FragmentStart(n) => Elem::Frag(n.clone()),
                })
                .collect()
        })
        .collect()
}

fn conv_err(e: html2text::Error) -> Outcome {
    match e {
        html2text::Error::TooNarrow => Outcome::TooNarrow,
        html2text::Error::CssParseError => Outcome::CssError,
        other => Outcome::OtherErr(format!("{:?}", other)),
    }
}

/// Routes: 0 string_from_read, 1 lines_from_read, 10 coloured(identity),
/// 11 parse_html + dom_to_render_tree + clone + render_to_string,
/// 12 same with render_to_lines.
fn run_generic<D: TextDecorator + Clone>(
    base: Config<D>,
    cfg: &Cfg,
    route: u32,
    width: usize,
    html: &[u8],
    conv: impl Fn(&D::Annotation) -> Ann,
) -> Outcome {
    let c = match apply_opts(base, cfg) {
        Ok(c) => c,
        Err(e) => return conv_err(e),
    };
    match route {
        0 => match c.string_from_read(html, width) {
            Ok(s) => Outcome::Str(s),
            Err(e) => conv_err(e),
        },
        1 | 2 => match c.lines_from_read(html, width) {
            Ok(ls) => Outcome::Lines(conv_lines(ls, conv)),
            Err(e) => conv_err(e),
        },
        11 | 12 => {
            let dom = match c.parse_html(html) {
                Ok(d) => d,
                Err(e) => return conv_err(e),
            };
            let tree = match c.dom_to_render_tree(&dom) {
                Ok(t) => t,
                Err(e) => return conv_err(e),
            };
            let t2 = tree.clone();
            drop(tree);
            if route == 11 {
                match c.render_to_string(t2, width) {
                    Ok(s) => Outcome::Str(s),
                    Err(e) => conv_err(e),
                }
            } else {
                match c.render_to_lines(t2, width) {
                    Ok(ls) => Outcome::Lines(conv_lines(ls, conv)),
                    Err(e) => conv_err(e),
                }
            }
        }
        _ => Outcome::OtherErr("bad route".into()),
    }
}

pub fn run_impl(cfg: &Cfg, route: u32, width: usize, html: &[u8]) -> Outcome {
    match cfg.deco {
        0 => run_generic(config::plain(), cfg, route, width, html, |_| Ann::Default),
        1 => run_generic(config::plain_no_decorate(), cfg, route, width, html, |_| Ann::Default),
        2 => {
            if route == 10 {
                let c = match apply_opts(config::rich(), cfg) {
                    Ok(c) => c,
                    Err(e) => return conv_err(e),
                };
                match c.coloured(html, width, |_, s| s.to_string()) {
                    Ok(s) => Outcome::Str(s),
                    Err(e) => conv_err(e),
                }
            } else {
                run_generic(config::rich(), cfg, route, width, html, conv_rich)
            }
        }
        3 => run_generic(
            config::with_decorator(html2text::render::TrivialDecorator::new()),
            cfg,
            route,
            width,
            html,
            |_| Ann::Default,
        ),
        _ => run_generic(
            config::with_decorator(CustomDeco { s: cfg.custom.clone() }),
            cfg,
            route,
            width,
            html,
            |_| Ann::Default,
        ),
    }
}

/// Parse with the same options Config::parse_html uses and dump the DOM.
pub fn dump_dom(html: &[u8]) -> Option<Vec<VerifNode>> {
    let c = config::plain();
    c.parse_html(html).ok().map(|d| verif_dump_dom(&d))
}

/// A render-history on one parsed tree (C10): widths rendered in order on clones of
/// one RenderTree; returns each result and the cache counts observed before each render.
pub fn run_history(cfg: &Cfg, widths: &[usize], html: &[u8], lines_route: bool) -> Vec<(Outcome, usize)> {
    fn go<D: TextDecorator + Clone>(
        base: Config<D>,
        cfg: &Cfg,
        widths: &[usize],
        html: &[u8],
        lines_route: bool,
        conv: impl Fn(&D::Annotation) -> Ann,
    ) -> Vec<(Outcome, usize)> {
        let c = match apply_opts(base, cfg) {
            Ok(c) => c,
            Err(e) => return vec![(conv_err(e), 0)],
        };
        let dom = match c.parse_html(html) {
            Ok(d) => d,
            Err(e) => return vec![(conv_err(e), 0)],
        };
        let tree = match c.dom_to_render_tree(&dom) {
            Ok(t) => t,
            Err(e) => return vec![(conv_err(e), 0)],
        };
        let mut out = Vec::new();
        for (k, &w) in widths.iter().enumerate() {
            // every other width: a tree built again from the same parsed document (building a
            // tree must not change the document), otherwise a clone of the first tree
            let t = if k % 2 == 1 {
                match c.dom_to_render_tree(&dom) {
                    Ok(t) => t,
                    Err(e) => {
                        out.push((conv_err(e), 0));
                        continue;
                    }
                }
            } else {
                tree.clone()
            };
            let cc = html2text::verif::verif_cache_count(&t);
            let r = if lines_route {
                match c.render_to_lines(t, w) {
                    Ok(ls) => Outcome::Lines(conv_lines(ls, &conv)),
                    Err(e) => conv_err(e),
                }
            } else {
                match c.render_to_string(t, w) {
                    Ok(s) => Outcome::Str(s),
                    Err(e) => conv_err(e),
                }
            };
            out.push((r, cc));
        }
        out
    }
    match cfg.deco {
        0 => go(config::plain(), cfg, widths, html, lines_route, |_| Ann::Default),
        1 => go(config::plain_no_decorate(), cfg, widths, html, lines_route, |_| Ann::Default),
        2 => go(config::rich(), cfg, widths, html, lines_route, conv_rich),
        3 => go(
            config::with_decorator(html2text::render::TrivialDecorator::new()),
            cfg,
            widths,
            html,
            lines_route,
            |_| Ann::Default,
        ),
        _ => go(
            config::with_decorator(CustomDeco { s: cfg.custom.clone() }),
            cfg,
            widths,
            html,
            lines_route,
            |_| Ann::Default,
        ),
    }
}

pub fn str_width(s: &str) -> usize {
    UnicodeWidthStr::width(s)
}
pub fn chars_width(s: &str) -> usize {
    s.chars().map(char_w).sum()
}
