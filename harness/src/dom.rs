//! Parent-side copy of the parsed DOM (decoded from the worker's wire dump) and oracles
//! over it that are independent of the renderer.
use crate::pool::Cur;

#[derive(Clone, Debug, PartialEq)]
pub enum DNode {
    El { html: bool, name: String, attrs: Vec<(String, String)>, kids: Vec<DNode> },
    Text(String),
    Comment,
    Other,
}

fn text(c: &mut Cur) -> Option<String> {
    let n = c.n()? as usize;
    let mut s = String::new();
    for _ in 0..n {
        s.push(char::from_u32((c.n()? / 16) as u32).unwrap_or('\u{fffd}'));
    }
    Some(s)
}
fn nodes(c: &mut Cur) -> Option<Vec<DNode>> {
    let n = c.n()? as usize;
    let mut v = Vec::new();
    for _ in 0..n {
        v.push(node(c)?);
    }
    Some(v)
}
fn node(c: &mut Cur) -> Option<DNode> {
    match c.n()? {
        0 => {
            let html = c.n()? != 0;
            let name = text(c)?;
            let na = c.n()? as usize;
            let mut attrs = Vec::new();
            for _ in 0..na {
                let k = text(c)?;
                let v = text(c)?;
                attrs.push((k, v));
            }
            let kids = nodes(c)?;
            Some(DNode::El { html, name, attrs, kids })
        }
        1 => Some(DNode::Text(text(c)?)),
        2 => Some(DNode::Comment),
        3 => Some(DNode::Other),
        _ => None,
    }
}
pub fn decode_dom(wire: &[u64]) -> Option<Vec<DNode>> {
    let mut c = Cur { v: wire, i: 0 };
    nodes(&mut c)
}

impl DNode {
    pub fn attr(&self, k: &str) -> Option<&str> {
        if let DNode::El { attrs, .. } = self {
            attrs.iter().find(|(a, _)| a == k).map(|(_, v)| v.as_str())
        } else {
            None
        }
    }
    pub fn is(&self, n: &str) -> bool {
        matches!(self, DNode::El { html: true, name, .. } if name == n)
    }
    pub fn kids(&self) -> &[DNode] {
        match self {
            DNode::El { kids, .. } => kids,
            _ => &[],
        }
    }
}

pub fn walk<'a>(nodes: &'a [DNode], f: &mut dyn FnMut(&'a DNode, &[&'a DNode])) {
    fn go<'a>(n: &'a DNode, anc: &mut Vec<&'a DNode>, f: &mut dyn FnMut(&'a DNode, &[&'a DNode])) {
        f(n, anc);
        if let DNode::El { kids, .. } = n {
            anc.push(n);
            for k in kids {
                go(k, anc, f);
            }
            anc.pop();
        }
    }
    let mut anc = Vec::new();
    for n in nodes {
        go(n, &mut anc, f);
    }
}

pub fn has_element(nodes: &[DNode], names: &[&str]) -> bool {
    let mut found = false;
    walk(nodes, &mut |n, _| {
        if let DNode::El { html: true, name, .. } = n {
            if names.contains(&name.as_str()) {
                found = true;
            }
        }
    });
    found
}

const SKIP: [&str; 7] = ["head", "script", "style", "link", "meta", "hr", "template"];

/// V(d): the visible, non-whitespace characters of the document's flow text, in document
/// order: text nodes and img alt (when src is present too) outside head/script/style.
pub fn visible_chars(nodes: &[DNode]) -> Vec<char> {
    visible_chars_opt(nodes, false)
}
/// V(d) as C03 states it: image alt text counts whether or not the image has a src.
pub fn visible_chars_strict(nodes: &[DNode]) -> Vec<char> {
    visible_chars_opt(nodes, true)
}
fn visible_chars_opt(nodes: &[DNode], alt_without_src: bool) -> Vec<char> {
    fn go(n: &DNode, out: &mut Vec<char>, alt_without_src: bool) {
        match n {
            DNode::Text(t) => {
                for c in t.chars() {
                    if !c.is_whitespace() && unicode_width::UnicodeWidthChar::width(c).is_some() {
                        out.push(c);
                    }
                }
            }
            DNode::El { html, name, kids, .. } => {
                if *html && SKIP.contains(&name.as_str()) {
                    return;
                }
                if *html && name == "img" {
                    let alt = n.attr("alt").unwrap_or("");
                    let src = n.attr("src").unwrap_or("");
                    if !alt.is_empty() && (alt_without_src || !src.is_empty()) {
                        for c in alt.chars() {
                            if !c.is_whitespace() && unicode_width::UnicodeWidthChar::width(c).is_some() {
                                out.push(c);
                            }
                        }
                    }
                    return;
                }
                if *html && name == "br" {
                    return;
                }
                for k in kids {
                    go(k, out, alt_without_src);
                }
            }
            _ => {}
        }
    }
    let mut out = Vec::new();
    for n in nodes {
        go(n, &mut out, alt_without_src);
    }
    out
}

/// The recorded class `zero_width_column_under_colspan`, decided on the document: some table has a
/// cell with colspan > 1 that covers a column which gets no width - either because every share of
/// that column's cells is zero (all its single cells empty and every spanning cell's text shorter
/// than its span), or because the table has to be squeezed (its natural width exceeds `width`)
/// and the column has no single-column cell with text to keep it alive.
pub fn colspan_zero_class(nodes: &[DNode], width: usize) -> bool {
    fn text_cols(n: &DNode) -> usize {
        // rough size estimate of a cell: display columns of its text with white space collapsed
        let mut t = String::new();
        fn all(n: &DNode, o: &mut String) {
            match n {
                DNode::Text(x) => o.push_str(x),
                DNode::El { html: true, name, .. } if name == "img" => o.push_str(n.attr("alt").unwrap_or("")),
                DNode::El { kids, .. } => {
                    o.push(' ');
                    kids.iter().for_each(|k| all(k, o));
                    o.push(' ');
                }
                _ => {}
            }
        }
        all(n, &mut t);
        let words: Vec<&str> = t.split_whitespace().collect();
        if words.is_empty() {
            return 0;
        }
        words.iter().map(|w| w.chars().map(|c| unicode_width::UnicodeWidthChar::width(c).unwrap_or(0)).sum::<usize>()).sum::<usize>() + words.len() - 1
    }
    let mut hit = false;
    walk(nodes, &mut |n, _| {
        if !n.is("table") || hit {
            return;
        }
        fn rows_of<'a>(n: &'a DNode, rows: &mut Vec<&'a DNode>) {
            for x in n.kids() {
                if x.is("tr") {
                    rows.push(x);
                } else if x.is("thead") || x.is("tbody") {
                    rows_of(x, rows);
                }
            }
        }
        let mut trs = Vec::new();
        rows_of(n, &mut trs);
        // (start column, span, size) of every cell
        let mut cells: Vec<(usize, usize, usize)> = Vec::new();
        let mut ncols = 0usize;
        for tr in &trs {
            let mut c = 0usize;
            for cell in tr.kids().iter().filter(|x| x.is("td") || x.is("th")) {
                let span = cell.attr("colspan").and_then(|x| x.parse::<usize>().ok()).unwrap_or(1).max(1).min(1000);
                cells.push((c, span, text_cols(cell)));
                c += span;
            }
            ncols = ncols.max(c);
        }
        if ncols == 0 || ncols > 4000 || !cells.iter().any(|x| x.1 > 1) {
            return;
        }
        let mut size = vec![0usize; ncols];
        let mut single = vec![false; ncols];
        for &(c0, span, sz) in &cells {
            for c in c0..(c0 + span).min(ncols) {
                size[c] = size[c].max(sz / span);
            }
            if span == 1 && sz > 0 {
                single[c0] = true;
            }
        }
        let under_span = |c: usize| cells.iter().any(|&(c0, span, _)| span > 1 && c0 <= c && c < c0 + span);
        let a = (0..ncols).any(|c| size[c] == 0 && under_span(c));
        let natural: usize = size.iter().sum::<usize>() + ncols - 1;
        let b = natural > width && (0..ncols).any(|c| !single[c] && under_span(c));
        if a || b {
            hit = true;
        }
    });
    hit
}
