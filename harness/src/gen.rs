//! Structured HTML generators (all choices from one PRNG).
use crate::core::Rng;

#[derive(Clone, Debug, PartialEq)]
pub enum H {
    El(String, Vec<(String, String)>, Vec<H>),
    Text(String),
    Comment(String),
}

pub fn el(name: &str, kids: Vec<H>) -> H {
    H::El(name.to_string(), vec![], kids)
}
pub fn ela(name: &str, attrs: Vec<(&str, String)>, kids: Vec<H>) -> H {
    H::El(
        name.to_string(),
        attrs.into_iter().map(|(k, v)| (k.to_string(), v)).collect(),
        kids,
    )
}
pub fn txt(s: &str) -> H {
    H::Text(s.to_string())
}

fn esc_text(s: &str, o: &mut String) {
    for c in s.chars() {
        match c {
            '&' => o.push_str("&amp;"),
            '<' => o.push_str("&lt;"),
            '>' => o.push_str("&gt;"),
            c => o.push(c),
        }
    }
}
fn esc_attr(s: &str, o: &mut String) {
    for c in s.chars() {
        match c {
            '&' => o.push_str("&amp;"),
            '"' => o.push_str("&quot;"),
            c => o.push(c),
        }
    }
}

pub fn is_void(name: &str) -> bool {
    matches!(name, "br" | "img" | "hr" | "meta" | "link" | "input")
}

impl H {
    pub fn write(&self, o: &mut String) {
        match self {
            H::Text(s) => esc_text(s, o),
            H::Comment(s) => {
                o.push_str("<!--");
                o.push_str(s);
                o.push_str("-->");
            }
            H::El(name, attrs, kids) => {
                o.push('<');
                o.push_str(name);
                for (k, v) in attrs {
                    o.push(' ');
                    o.push_str(k);
                    o.push_str("=\"");
                    esc_attr(v, o);
                    o.push('"');
                }
                o.push('>');
                if !is_void(name) {
                    for k in kids {
                        k.write(o);
                    }
                    o.push_str("</");
                    o.push_str(name);
                    o.push('>');
                }
            }
        }
    }
}
pub fn to_html(v: &[H]) -> String {
    let mut o = String::new();
    for h in v {
        h.write(&mut o);
    }
    o
}

#[derive(Clone, Debug)]
pub struct GenOpts {
    pub tables: u8, // 0 none, 1 regular only, 2 also irregular
    pub nested_tables: bool,
    pub pre: bool,
    pub links: bool,
    pub ids: bool,
    pub classes: bool,
    pub wide: bool,
    pub combining: bool,
    pub imgs: bool,
    /// links with empty / fragment / relative targets and with no or whitespace-only content
    pub odd_links: bool,
    pub sup: bool,
    pub strike: bool,
    pub br: bool,
    pub dl: bool,
    pub lists: bool,
    pub quotes: bool,
    pub headings: bool,
    pub inline_markup: bool,
    pub divs: bool,
    pub max_depth: usize,
    pub max_blocks: usize,
    pub max_words: usize,
    pub ws_noise: bool,
    pub ol_start: bool,
    pub colours: bool, // inline style colours (needs doc css)
}
impl Default for GenOpts {
    fn default() -> Self {
        GenOpts {
            tables: 0,
            nested_tables: false,
            pre: false,
            links: false,
            ids: false,
            classes: false,
            wide: true,
            combining: true,
            imgs: false,
            odd_links: false,
            sup: false,
            strike: false,
            br: false,
            dl: false,
            lists: true,
            quotes: true,
            headings: true,
            inline_markup: true,
            divs: true,
            max_depth: 3,
            max_blocks: 4,
            max_words: 12,
            ws_noise: true,
            ol_start: true,
            colours: false,
        }
    }
}
impl GenOpts {
    pub fn all() -> Self {
        GenOpts {
            tables: 2,
            nested_tables: true,
            pre: true,
            links: true,
            ids: true,
            classes: false,
            imgs: true,
            odd_links: false,
            sup: true,
            strike: true,
            br: true,
            dl: true,
            ..Default::default()
        }
    }
}

pub const WIDE: [char; 6] = ['中', '文', '字', '漢', '語', 'あ'];

pub struct Gen<'a> {
    pub rng: &'a mut Rng,
    pub o: GenOpts,
    pub tok: usize,
    pub idn: usize,
    pub linkn: usize,
    pub hrefs: Vec<String>,
}

impl<'a> Gen<'a> {
    pub fn new(rng: &'a mut Rng, o: GenOpts) -> Gen<'a> {
        Gen { rng, o, tok: 0, idn: 0, linkn: 0, hrefs: vec![] }
    }

    /// A unique token: letters encode the counter; random decoration with wide and
    /// combining characters (never at the cost of uniqueness: the ASCII skeleton is kept).
    pub fn word(&mut self) -> String {
        let mut n = self.tok;
        self.tok += 1;
        let mut s = String::new();
        // unique skeleton in base 20 over consonant-ish letters, prefixed by 'q'
        let alpha: Vec<char> = "bcdfghjklmnpqrstvwxz".chars().collect();
        s.push('q');
        loop {
            s.push(alpha[n % 20]);
            n /= 20;
            if n == 0 {
                break;
            }
        }
        s.push('y');
        // pad to a random length with vowels
        let extra = self.rng.below(6);
        for _ in 0..extra {
            s.push(*self.rng.pick(&['a', 'e', 'i', 'o', 'u']));
        }
        let mut out = String::new();
        for c in s.chars() {
            out.push(c);
            if self.o.combining && self.rng.chance(1, 12) {
                out.push('\u{301}');
            }
            if self.o.wide && self.rng.chance(1, 10) {
                out.push(*self.rng.pick(&WIDE));
                if self.o.combining && self.rng.chance(1, 3) {
                    out.push(*self.rng.pick(&['\u{301}', '\u{308}']));
                }
            }
        }
        out
    }

    pub fn ws(&mut self) -> String {
        if !self.o.ws_noise || self.rng.chance(3, 4) {
            " ".to_string()
        } else {
            let n = self.rng.range(1, 3);
            (0..n).map(|_| *self.rng.pick(&[' ', '\n', '\t', ' '])).collect()
        }
    }

    pub fn words(&mut self, n: usize) -> String {
        let mut s = String::new();
        for i in 0..n {
            if i > 0 {
                s.push_str(&self.ws());
            }
            s.push_str(&self.word());
        }
        s
    }

    fn maybe_id(&mut self, attrs: &mut Vec<(String, String)>) {
        if self.o.ids && self.rng.chance(1, 4) {
            self.idn += 1;
            // (ids and class names are case-sensitive: some are written with capitals)
            let pfx = if self.o.classes && self.rng.chance(1, 5) { "Id" } else { "id" };
            attrs.push(("id".into(), format!("{}{}", pfx, self.idn)));
        }
        if self.o.classes && self.rng.chance(1, 3) {
            // (class names are separated by any of space, tab, LF, FF, CR)
            let c = *self.rng.pick(&["ca", "cb", "cc", "ca cb", "Cd", "cd", "cD ca", "MsoNormal", "cb\tca", "cc\ncb", "ca \u{c}cc", " cb\r\nca "]);
            attrs.push(("class".into(), c.to_string()));
        }
        if self.o.colours && self.rng.chance(1, 5) {
            let c = *self.rng.pick(&["red", "#00f", "rgb(1,2,3)", "green"]);
            if self.rng.chance(1, 2) {
                attrs.push(("style".into(), format!("color:{};", c)));
            } else {
                attrs.push(("style".into(), format!("background-color:{};", c)));
            }
        } else if self.o.colours && self.rng.chance(1, 8) {
            // the presentational attributes: color= is the text colour, bgcolor= the background
            let c = *self.rng.pick(&["red", "#00f", "green", "00aabb", "#0a0b0c"]);
            let k = if self.rng.chance(1, 2) { "color" } else { "bgcolor" };
            attrs.push((k.into(), c.to_string()));
        }
    }

    pub fn inline(&mut self, depth: usize, budget: &mut usize) -> Vec<H> {
        let mut v = Vec::new();
        let n = self.rng.range(1, 4);
        for i in 0..n {
            if *budget == 0 {
                break;
            }
            if i > 0 && self.rng.chance(4, 5) {
                v.push(H::Text(self.ws()));
            }
            let k = self.rng.below(14);
            let nw = self.rng.range(1, 4).min(*budget);
            match k {
                0..=5 => {
                    *budget -= nw;
                    let w = self.words(nw);
                    v.push(H::Text(w));
                }
                6 | 7 if self.o.inline_markup && depth > 0 => {
                    let name = *self.rng.pick(&["em", "strong", "code", "span", "i"]);
                    let mut attrs = vec![];
                    self.maybe_id(&mut attrs);
                    let kids = self.inline(depth - 1, budget);
                    v.push(H::El(name.into(), attrs, kids));
                }
                8 if self.o.links && depth > 0 => {
                    self.linkn += 1;
                    let href = if self.rng.chance(1, 6) && !self.hrefs.is_empty() {
                        self.rng.pick(&self.hrefs).clone()
                    } else if self.o.odd_links && self.rng.chance(1, 6) {
                        self.rng.pick(&["", "#frag", "rel/path", "?q=1", "http://n.example/a\nb", "http://n.example/\u{4e16}\u{754c}", "\u{4e2d}"]).to_string()
                    } else {
                        format!("http://h{}.example/{}", self.linkn, "p".repeat(self.rng.below(20)))
                    };
                    self.hrefs.push(href.clone());
                    let mut attrs = vec![("href".to_string(), href)];
                    if self.o.ids && self.rng.chance(1, 6) {
                        // an anchor that is a link and has a name: attribute order either way
                        self.idn += 1;
                        let nm = ("name".to_string(), format!("id{}", self.idn));
                        if self.rng.chance(1, 2) {
                            attrs.push(nm);
                        } else {
                            attrs.insert(0, nm);
                        }
                    }
                    self.maybe_id(&mut attrs);
                    *budget -= 1;
                    if self.o.odd_links && self.rng.chance(1, 20) {
                        // a link without content
                        let kids = match self.rng.below(6) {
                            0 => vec![],
                            1 => vec![H::Text(" ".into())],
                            4 => vec![H::Text("\u{a0}".into())],
                            5 => vec![H::Text(" \u{3000}\u{2003}".into())],
                            2 => vec![H::El("em".into(), vec![], vec![])],
                            _ => vec![H::El("span".into(), vec![], vec![H::Text(" ".into())])],
                        };
                        v.push(H::El("a".into(), attrs, kids));
                    } else {
                        let nw2 = self.rng.range(1, 2);
                        let mut w = self.words(nw2);
                        if self.o.odd_links && self.rng.chance(1, 12) {
                            // a link whose text is its own target
                            let h = attrs.iter().find(|a| a.0 == "href").map(|a| a.1.clone()).unwrap_or_default();
                            if h.starts_with("http://h") {
                                w = h;
                            }
                        }
                        v.push(H::El("a".into(), attrs, vec![H::Text(w)]));
                    }
                }
                9 if self.o.imgs => {
                    let alt = self.word();
                    *budget = budget.saturating_sub(1);
                    v.push(ela("img", vec![("alt", alt), ("src", format!("i{}.png", self.tok))], vec![]));
                }
                10 if self.o.strike && depth > 0 => {
                    let name = *self.rng.pick(&["s", "del"]);
                    let kids = self.inline(depth - 1, budget);
                    v.push(el(name, kids));
                }
                11 if self.o.sup && depth > 0 => {
                    // (the element may carry an id / class / colour like any other)
                    let mut attrs = vec![];
                    self.maybe_id(&mut attrs);
                    if self.rng.chance(1, 4) {
                        // digits first, then more content (not the digits-only special case)
                        let d = format!("{}", self.rng.below(100));
                        *budget = budget.saturating_sub(1);
                        let w = self.word();
                        let more = match self.rng.below(3) {
                            0 => H::El("em".into(), vec![], vec![H::Text(w)]),
                            1 => H::El("sup".into(), vec![], vec![H::Text(w)]),
                            _ => H::El("span".into(), vec![], vec![H::Text(format!(" {}", w))]),
                        };
                        v.push(H::El("sup".into(), attrs, vec![H::Text(d), more]));
                    } else if self.o.links && self.rng.chance(1, 6) {
                        // a footnote-style link inside the superscript: digits (or a word) as link text
                        self.linkn += 1;
                        let href = format!("http://h{}.example/n", self.linkn);
                        self.hrefs.push(href.clone());
                        let t = if self.rng.chance(2, 3) { format!("{}", 1000 + self.rng.below(3000)) } else { *budget = budget.saturating_sub(1); self.word() };
                        let a = H::El("a".into(), vec![("href".to_string(), href)], vec![H::Text(t)]);
                        v.push(H::El("sup".into(), attrs, vec![a]));
                    } else if self.rng.chance(1, 6) {
                        // numeric characters that are not ASCII digits (alone, or mixed with digits)
                        let d = *self.rng.pick(&["\u{b2}", "\u{bd}", "\u{2460}", "\u{661}", "\u{ff11}\u{ff12}", "1\u{662}", "\u{2075}2", "\u{2167}", "\u{96d}"]);
                        v.push(H::El("sup".into(), attrs, vec![H::Text(d.to_string())]));
                    } else if self.rng.chance(1, 6) {
                        // digits separated / surrounded by white space ("1 2": a list of note numbers)
                        let d = match self.rng.below(3) {
                            0 => format!("{} {}", self.rng.below(10), self.rng.below(100)),
                            1 => format!(" {} ", self.rng.below(100)),
                            _ => format!("{}{}{}", self.rng.below(10), self.ws(), self.rng.below(10)),
                        };
                        v.push(H::El("sup".into(), attrs, vec![H::Text(d)]));
                    } else if self.rng.chance(1, 2) {
                        let d = format!("{}", self.rng.below(100));
                        v.push(H::El("sup".into(), attrs, vec![H::Text(d)]));
                    } else {
                        *budget -= 1;
                        let w = self.word();
                        v.push(H::El("sup".into(), attrs, vec![H::Text(w)]));
                    }
                }
                12 if self.o.br => {
                    v.push(el("br", vec![]));
                }
                13 if self.o.ids && self.o.links => {
                    self.idn += 1;
                    *budget -= 1;
                    let w = self.word();
                    v.push(ela("a", vec![("name", format!("id{}", self.idn))], vec![H::Text(w)]));
                }
                _ => {
                    *budget -= nw;
                    let w = self.words(nw);
                    v.push(H::Text(w));
                }
            }
        }
        if v.is_empty() {
            v.push(H::Text(self.word()));
        }
        v
    }

    pub fn pre_text(&mut self) -> String {
        let nl = self.rng.range(1, 5);
        let mut s = String::new();
        for i in 0..nl {
            if i > 0 {
                s.push('\n');
            }
            if self.rng.chance(1, 8) {
                continue; // blank line
            }
            match self.rng.below(8) {
                0 | 1 => s.push_str(&" ".repeat(self.rng.range(1, 4))),
                2 => s.push_str(&format!("{}\t", " ".repeat(self.rng.range(1, 3)))), // spaces then a tab
                3 => s.push('\t'),
                _ => {}
            }
            let nw = self.rng.range(1, 4);
            for j in 0..nw {
                if j > 0 {
                    match self.rng.below(12) {
                        0 | 1 => s.push('\t'),
                        2 => s.push_str(&format!("{}\t", " ".repeat(self.rng.range(1, 3)))), // pending spaces, then a tab
                        3 => s.push_str(&format!("\t{}", " ".repeat(self.rng.range(1, 3)))),
                        4 => s.push_str("\t\t"),
                        _ => s.push_str(&" ".repeat(self.rng.range(1, 4))),
                    }
                }
                s.push_str(&self.word());
            }
            if self.rng.chance(1, 6) {
                s.push_str(&" ".repeat(self.rng.range(1, 3)));
            }
        }
        s
    }

    pub fn table(&mut self, depth: usize, regular: bool) -> H {
        let rows = self.rng.range(1, 4);
        let cols = self.rng.range(1, 4);
        let mut trs = Vec::new();
        for _ in 0..rows {
            let mut tds = Vec::new();
            let mut c = 0;
            while c < cols {
                let span = if self.rng.chance(1, 5) { self.rng.range(1, cols - c) } else { 1 };
                let mut attrs: Vec<(String, String)> = vec![];
                if span > 1 {
                    attrs.push(("colspan".into(), span.to_string()));
                } else if !regular && self.rng.chance(1, 15) {
                    attrs.push(("colspan".into(), self.rng.pick(&["0", "1000", "abc", "3"]).to_string()));
                }
                self.maybe_id(&mut attrs);
                let kids = match self.rng.below(8) {
                    0 => vec![],
                    1 if depth > 0 && self.o.nested_tables => vec![self.table(depth - 1, regular)],
                    2 if depth > 0 => self.blocks(depth - 1, 2),
                    _ => {
                        let mut b = self.rng.range(1, 4);
                        self.inline(1, &mut b)
                    }
                };
                let name = if self.rng.chance(1, 6) { "th" } else { "td" };
                tds.push(H::El(name.into(), attrs, kids));
                c += span;
                if !regular && self.rng.chance(1, 12) {
                    break; // ragged row
                }
            }
            let mut attrs = vec![];
            self.maybe_id(&mut attrs);
            trs.push(H::El("tr".into(), attrs, tds));
        }
        let mut attrs = vec![];
        self.maybe_id(&mut attrs);
        let body = match self.rng.below(4) {
            0 if trs.len() > 1 => {
                let rest = trs.split_off(1);
                vec![el("thead", trs), el("tbody", rest)]
            }
            1 => vec![el("tbody", trs)],
            _ => trs,
        };
        H::El("table".into(), attrs, body)
    }

    pub fn block(&mut self, depth: usize) -> H {
        let k = self.rng.below(16);
        let mut attrs = vec![];
        self.maybe_id(&mut attrs);
        let mut budget = self.rng.range(1, self.o.max_words.max(1));
        match k {
            0 | 1 if self.o.lists && depth > 0 => {
                let n = self.rng.range(1, 4);
                let items = (0..n)
                    .map(|_| {
                        let mut a = vec![];
                        self.maybe_id(&mut a);
                        let kids = if self.rng.chance(1, 3) && depth > 1 {
                            self.blocks(depth - 1, 2)
                        } else {
                            self.inline(2, &mut budget)
                        };
                        H::El("li".into(), a, kids)
                    })
                    .collect();
                H::El("ul".into(), attrs, items)
            }
            2 if self.o.lists && depth > 0 => {
                let n = self.rng.range(1, 12);
                if self.o.ol_start && self.rng.chance(1, 2) {
                    let st = *self.rng.pick(&[-100i64, -11, -9, -1, 0, 1, 2, 8, 9, 10, 95, 98, 99, 100, 999]);
                    attrs.push(("start".into(), st.to_string()));
                }
                let items = (0..n)
                    .map(|_| {
                        let mut b = self.rng.range(1, 3);
                        let kids = if self.rng.chance(1, 5) && depth > 1 {
                            self.blocks(depth - 1, 2)
                        } else {
                            self.inline(1, &mut b)
                        };
                        let mut a = vec![];
                        self.maybe_id(&mut a);
                        H::El("li".into(), a, kids)
                    })
                    .collect();
                H::El("ol".into(), attrs, items)
            }
            3 if self.o.quotes && depth > 0 => {
                let kids = self.blocks(depth - 1, 2);
                H::El("blockquote".into(), attrs, kids)
            }
            4 if self.o.headings => {
                let lvl = self.rng.range(1, 6);
                let kids = self.inline(1, &mut budget);
                H::El(format!("h{}", lvl), attrs, kids)
            }
            5 if self.o.divs && depth > 0 => {
                let kids = if self.rng.chance(1, 2) {
                    self.blocks(depth - 1, 2)
                } else {
                    self.inline(2, &mut budget)
                };
                H::El("div".into(), attrs, kids)
            }
            6 if self.o.pre => {
                let t = self.pre_text();
                // half of the blocks are cut into text nodes and inline elements (so that a source
                // line can start in a node of its own)
                if self.o.inline_markup && self.rng.chance(1, 2) {
                    let cs: Vec<char> = t.chars().collect();
                    let mut kids = Vec::new();
                    let mut i = 0;
                    while i < cs.len() {
                        let step = self.rng.range(1, 10).min(cs.len() - i);
                        let seg: String = cs[i..i + step].iter().collect();
                        if self.rng.chance(1, 3) {
                            let name = *self.rng.pick(&["em", "strong", "code", "span", "b"]);
                            kids.push(H::El(name.into(), vec![], vec![H::Text(seg)]));
                        } else {
                            kids.push(H::Text(seg));
                        }
                        i += step;
                    }
                    H::El("pre".into(), attrs, kids)
                } else {
                    H::El("pre".into(), attrs, vec![H::Text(t)])
                }
            }
            7 | 8 if self.o.tables > 0 && depth > 0 => {
                let regular = self.o.tables == 1 || self.rng.chance(3, 4);
                self.table(depth - 1, regular)
            }
            9 if self.o.dl && depth > 0 => {
                let n = self.rng.range(1, 3);
                let mut kids = vec![];
                for _ in 0..n {
                    let mut b = self.rng.range(1, 3);
                    let mut a = vec![];
                    self.maybe_id(&mut a);
                    let k = self.inline(1, &mut b);
                    kids.push(H::El("dt".into(), a, k));
                    let mut b = self.rng.range(1, 6);
                    let mut a = vec![];
                    self.maybe_id(&mut a);
                    let k = self.inline(1, &mut b);
                    kids.push(H::El("dd".into(), a, k));
                }
                H::El("dl".into(), attrs, kids)
            }
            _ => {
                let kids = self.inline(2, &mut budget);
                H::El("p".into(), attrs, kids)
            }
        }
    }

    pub fn blocks(&mut self, depth: usize, max: usize) -> Vec<H> {
        let n = self.rng.range(1, max.max(1));
        let mut v = Vec::new();
        for i in 0..n {
            if i > 0 && self.o.ws_noise && self.rng.chance(1, 2) {
                v.push(H::Text("\n".into()));
            }
            v.push(self.block(depth));
        }
        v
    }

    pub fn doc(&mut self) -> Vec<H> {
        let d = self.o.max_depth;
        let m = self.o.max_blocks;
        self.blocks(d, m)
    }
}

/// Byte-level mutation of a document (G-bytes).
pub fn mutate(rng: &mut Rng, src: &[u8]) -> Vec<u8> {
    let mut v = src.to_vec();
    let n = rng.range(1, 6);
    const FRAGS: [&[u8]; 24] = [
        b"<", b">", b"</", b"<table>", b"</table>", b"<td>", b"<tr>", b"<li>", b"<ol start=",
        b"colspan=", b"\"", b"&", b"&#", b"<!--", b"-->", b"<pre>", b"\t", b"\n", b"\xff",
        b"\xc3", b"\xe4\xb8\xad", b"<a href=", b"<ul>", b"<blockquote>",
    ];
    for _ in 0..n {
        if v.is_empty() {
            v.extend_from_slice(FRAGS[rng.below(FRAGS.len())]);
            continue;
        }
        let pos = rng.below(v.len());
        match rng.below(7) {
            0 => {
                v.remove(pos);
            }
            1 => {
                let len = rng.range(1, 20).min(v.len() - pos);
                v.drain(pos..pos + len);
            }
            2 => {
                let f = FRAGS[rng.below(FRAGS.len())];
                for (i, b) in f.iter().enumerate() {
                    v.insert(pos + i, *b);
                }
            }
            3 => {
                v[pos] = rng.below(256) as u8;
            }
            4 => {
                // duplicate a slice
                let len = rng.range(1, 30).min(v.len() - pos);
                let sl: Vec<u8> = v[pos..pos + len].to_vec();
                let at = rng.below(v.len());
                for (i, b) in sl.iter().enumerate() {
                    v.insert(at + i, *b);
                }
            }
            5 => {
                // replace a number by an extreme one
                let ex: [&[u8]; 8] = [
                    b"0", b"-1", b"18446744073709551615", b"9223372036854775807",
                    b"-9223372036854775808", b"4294967296", b"99999999999999999999999", b"1000000",
                ];
                if let Some(p) = v[pos..].iter().position(|b| b.is_ascii_digit()) {
                    let p = pos + p;
                    let mut e = p;
                    while e < v.len() && v[e].is_ascii_digit() {
                        e += 1;
                    }
                    let r = ex[rng.below(ex.len())];
                    v.splice(p..e, r.iter().copied());
                }
            }
            _ => {
                v.truncate(pos);
            }
        }
    }
    v
}
