//! Minimal JSON value + writer (no external crates).
use std::fmt::Write;

#[derive(Clone, Debug)]
pub enum J {
    Null,
    B(bool),
    I(i64),
    F(f64),
    S(String),
    A(Vec<J>),
    O(Vec<(String, J)>),
}

pub fn s(x: &str) -> J {
    J::S(x.to_string())
}
pub fn obj(v: Vec<(&str, J)>) -> J {
    J::O(v.into_iter().map(|(k, v)| (k.to_string(), v)).collect())
}

impl J {
    pub fn write(&self, o: &mut String) {
        match self {
            J::Null => o.push_str("null"),
            J::B(b) => o.push_str(if *b { "true" } else { "false" }),
            J::I(i) => write!(o, "{}", i).unwrap(),
            J::F(f) => write!(o, "{:.3}", f).unwrap(),
            J::S(s) => {
                o.push('"');
                for c in s.chars() {
                    match c {
                        '"' => o.push_str("\\\""),
                        '\\' => o.push_str("\\\\"),
                        '\n' => o.push_str("\\n"),
                        '\r' => o.push_str("\\r"),
                        '\t' => o.push_str("\\t"),
                        c if (c as u32) < 0x20 => write!(o, "\\u{:04x}", c as u32).unwrap(),
                        c => o.push(c),
                    }
                }
                o.push('"');
            }
            J::A(v) => {
                o.push('[');
                for (i, x) in v.iter().enumerate() {
                    if i > 0 {
                        o.push(',');
                    }
                    x.write(o);
                }
                o.push(']');
            }
            J::O(v) => {
                o.push('{');
                for (i, (k, x)) in v.iter().enumerate() {
                    if i > 0 {
                        o.push(',');
                    }
                    J::S(k.clone()).write(o);
                    o.push(':');
                    x.write(o);
                }
                o.push('}');
            }
        }
    }
    pub fn to_string(&self) -> String {
        let mut o = String::new();
        self.write(&mut o);
        o
    }
}
