//! h2t-harness: runs /repo's implementation on generated cases, runs the extracted Coq
//! model (OCaml driver) on the same parsed DOMs, compares, and applies per-property
//! checkers to the implementation's output.
mod core;
mod gen;
mod props;
mod props2;
mod props3;
mod props4;
mod props5;
mod dom;
mod pool;
mod json;

use std::io::{BufRead, Write};

fn worker_main() {
    // quiet panics: the message and location are captured per case
    std::panic::set_hook(Box::new(|info| {
        let msg = if let Some(s) = info.payload().downcast_ref::<&str>() {
            s.to_string()
        } else if let Some(s) = info.payload().downcast_ref::<String>() {
            s.clone()
        } else {
            "?".to_string()
        };
        let loc = info
            .location()
            .map(|l| format!("{}:{}", l.file(), l.line()))
            .unwrap_or_default();
        pool::LAST_PANIC.with(|p| *p.borrow_mut() = format!("{} @ {}", msg, loc));
    }));
    let stdin = std::io::stdin();
    let stdout = std::io::stdout();
    for line in stdin.lock().lines() {
        let line = match line {
            Ok(l) => l,
            Err(_) => break,
        };
        if line.is_empty() {
            continue;
        }
        let reply = pool::worker_handle(&line);
        let mut o = stdout.lock();
        writeln!(o, "{}", reply).unwrap();
        o.flush().unwrap();
    }
}

fn main() {
    let args: Vec<String> = std::env::args().collect();
    if args.len() < 2 {
        eprintln!("usage: h2t-harness worker | run <prop> <tier> <seed> <outdir> <driver> | replay <file> <driver>");
        std::process::exit(2);
    }
    match args[1].as_str() {
        "worker" => worker_main(),
        "run" => {
            let prop = &args[2];
            let tier = &args[3];
            let seed: u64 = args[4].parse().unwrap();
            let outdir = &args[5];
            let driver = &args[6];
            let code = props::run_property(prop, tier, seed, outdir, driver);
            std::process::exit(code);
        }
        "replay" => {
            let code = props::replay(&args[2], &args[3]);
            std::process::exit(code);
        }
        "one" => {
            // one <route> <width> <deco> <html>   (quick probe: default options)
            let route: u32 = args[2].parse().unwrap();
            let width: usize = args[3].parse().unwrap();
            let deco: u8 = args[4].parse().unwrap();
            let mut cfg = core::Cfg { deco, ..Default::default() };
            let mut i = 6;
            while i < args.len() {
                match args[i].as_str() {
                    "doccss" => cfg.doc_css = true,
                    "pad" => cfg.pad = true,
                    "overflow" => cfg.overflow = true,
                    "raw" => cfg.raw = 1,
                    "noborders" => cfg.no_borders = true,
                    "nolinkwrap" => cfg.no_link_wrap = true,
                    "footnotes" => cfg.footnotes = 1,
                    "nofootnotes" => cfg.footnotes = 2,
                    "nostrike" => cfg.strike = 2,
                    x if x.starts_with("maxwrap=") => cfg.max_wrap = Some(x[8..].parse().unwrap()),
                    x if x.starts_with("minwrap=") => cfg.min_wrap = Some(x[8..].parse().unwrap()),
                    x if x.starts_with("css=") => cfg.user_css.push(x[4..].to_string()),
                    x if x.starts_with("agentcss=") => cfg.agent_css.push(x[9..].to_string()),
                    _ => {}
                }
                i += 1;
            }
            // "@path": read the document from a file (documents too long for argv)
            let html_bytes: Vec<u8> = if let Some(path) = args[5].strip_prefix('@') { std::fs::read(path).unwrap() } else { args[5].as_bytes().to_vec() };
            if std::env::var("SPEC_LINE").is_ok() {
                let spec = pool::Spec { id: 0, route, cfg: cfg.clone(), width, widths: vec![], html: html_bytes.clone(), want_dom: true };
                println!("{}", pool::spec_to_line(&spec));
            } else {
                let kib: usize = std::env::var("H2T_STACK_KIB").ok().and_then(|x| x.parse().ok()).unwrap_or(8 * 1024);
                let o = std::thread::Builder::new().stack_size(kib * 1024).spawn(move || core::run_impl(&cfg, route, width, &html_bytes)).unwrap().join().unwrap();
                println!("{:#?}", o);
            }
        }
        "glyphs" => {
            props::print_glyphs();
        }
        _ => {
            eprintln!("unknown command");
            std::process::exit(2);
        }
    }
}
