//! Worker protocol and the parent-side process pool with per-case deadlines.
use crate::core::*;
use std::cell::RefCell;
use std::io::{BufRead, BufReader, Write};
use std::process::{Child, Command, Stdio};
use std::sync::mpsc;
use std::sync::{Arc, Mutex};
use std::time::{Duration, Instant};

thread_local! {
    pub static LAST_PANIC: RefCell<String> = RefCell::new(String::new());
}

/// What to run for a case.
#[derive(Clone, Debug)]
pub struct Spec {
    pub id: usize,
    pub route: u32, // see core::run_impl; 20/21 = history (string/lines) over `widths`
    pub cfg: Cfg,
    pub width: usize,
    pub widths: Vec<usize>, // for histories
    pub html: Vec<u8>,
    pub want_dom: bool,
}

#[derive(Clone, Debug)]
pub struct RunResult {
    pub regular: bool,
    pub dom_wire: Vec<u64>,
    pub outcome: Outcome,
    pub history: Vec<(Outcome, usize)>,
    pub panic_msg: String,
    pub ms: u64,
}

fn ints_to_string(v: &[u64]) -> String {
    let mut s = String::with_capacity(v.len() * 4);
    for (i, x) in v.iter().enumerate() {
        if i > 0 {
            s.push(' ');
        }
        s.push_str(&x.to_string());
    }
    s
}

pub fn spec_to_line(s: &Spec) -> String {
    format!(
        "{} {} {} {} {} {} {}",
        s.id,
        s.route,
        s.width,
        s.want_dom as u8,
        if s.widths.is_empty() {
            "-".to_string()
        } else {
            s.widths.iter().map(|w| w.to_string()).collect::<Vec<_>>().join(",")
        },
        s.cfg.to_tokens(),
        hex(&s.html)
    )
}

pub fn line_to_spec(line: &str) -> Spec {
    let mut it = line.split(' ');
    let id = it.next().unwrap().parse().unwrap();
    let route = it.next().unwrap().parse().unwrap();
    let width = it.next().unwrap().parse().unwrap();
    let want_dom = it.next().unwrap() == "1";
    let ws = it.next().unwrap();
    let widths = if ws == "-" {
        vec![]
    } else {
        ws.split(',').map(|w| w.parse().unwrap()).collect()
    };
    let cfg = Cfg::from_tokens(&mut it);
    let html = unhex(it.next().unwrap());
    Spec { id, route, cfg, width, widths, html, want_dom }
}

/// Run the implementation on a thread with the platform's usual main-thread stack
/// size (8 MiB), so that stack exhaustion on deep nesting is not hidden.
fn run_on_small_stack<T: Send + 'static>(f: impl FnOnce() -> T + Send + 'static) -> Option<T> {
    run_on_stack(8 * 1024, f)
}
/// routes 30.. = routes 0.. on a 1.5 MiB stack (a little below Rust's 2 MiB default for spawned
/// threads): used by the deep-nesting cases.  Not 2 MiB exactly: glibc keeps finished threads'
/// stacks in a cache and serves a request from a cached stack of up to four times the requested
/// size, so after an 8 MiB rendering thread a "2 MiB" thread would silently get 8 MiB.
fn run_on_stack<T: Send + 'static>(kib: usize, f: impl FnOnce() -> T + Send + 'static) -> Option<T> {
    std::thread::Builder::new()
        .stack_size(kib * 1024)
        .spawn(f)
        .unwrap()
        .join()
        .ok()
}
fn run_on_big_stack<T: Send + 'static>(f: impl FnOnce() -> T + Send + 'static) -> Option<T> {
    std::thread::Builder::new()
        .stack_size(2 * 1024 * 1024 * 1024)
        .spawn(f)
        .unwrap()
        .join()
        .ok()
}

/// Worker side: run one spec, reply with one line.
pub fn worker_handle(line: &str) -> String {
    let spec = line_to_spec(line);
    let t0 = Instant::now();
    let mut panic_msg = String::new();
    let mut history_s = String::new();
    let outcome;
    if spec.route == 20 || spec.route == 21 {
        let s2 = spec.clone();
        let r = run_on_small_stack(move || {
            let r = std::panic::catch_unwind(|| run_history(&s2.cfg, &s2.widths, &s2.html, s2.route == 21));
            let msg = LAST_PANIC.with(|p| p.borrow().clone());
            (r, msg)
        });
        match r {
            Some((Ok(h), _)) => {
                for (o, cc) in &h {
                    let mut w = Vec::new();
                    o.to_wire(&mut w);
                    history_s.push_str(&format!(" H {} {} {}", cc, w.len(), ints_to_string(&w)));
                }
                outcome = Outcome::OtherErr("history".into());
            }
            Some((Err(_), msg)) => {
                panic_msg = msg;
                outcome = Outcome::Panic(panic_msg.clone());
            }
            None => {
                outcome = Outcome::Panic("thread died".into());
            }
        }
    } else {
        let mut s2 = spec.clone();
        let kib = if (30..40).contains(&s2.route) { 1536 } else { 8 * 1024 };
        if (30..40).contains(&s2.route) {
            s2.route -= 30;
        }
        let r = run_on_stack(kib, move || {
            let r = std::panic::catch_unwind(|| run_impl(&s2.cfg, s2.route, s2.width, &s2.html));
            let msg = LAST_PANIC.with(|p| p.borrow().clone());
            (r, msg)
        });
        match r {
            Some((Ok(o), _)) => outcome = o,
            Some((Err(_), msg)) => {
                panic_msg = msg;
                outcome = Outcome::Panic(panic_msg.clone());
            }
            None => outcome = Outcome::Panic("thread died".into()),
        }
    }
    let ms = t0.elapsed().as_millis() as u64;
    let mut regular = spec.cfg.regular();
    let mut dom_wire = Vec::new();
    if spec.want_dom {
        let html = spec.html.clone();
        let r = run_on_big_stack(move || {
            let mut regular = true;
            let mut w = Vec::new();
            match std::panic::catch_unwind(|| dump_dom(&html)) {
                Ok(Some(nodes)) => {
                    enc_dom(&nodes, &mut w, &mut regular);
                    // avoid the recursive drop blowing this thread: it has a big stack
                    drop(nodes);
                    Some((w, regular))
                }
                _ => None,
            }
        });
        match r {
            Some(Some((w, reg))) => {
                dom_wire = w;
                regular = regular && reg;
            }
            _ => {
                regular = false;
            }
        }
    }
    let mut ow = Vec::new();
    outcome.to_wire(&mut ow);
    format!(
        "{} {} {} D {} {} O {} {} P {}{}",
        spec.id,
        regular as u8,
        ms,
        dom_wire.len(),
        ints_to_string(&dom_wire),
        ow.len(),
        ints_to_string(&ow),
        hex(panic_msg.as_bytes()),
        history_s
    )
}

// ------------------------------------------------------------ decoding
pub struct Cur<'a> {
    pub v: &'a [u64],
    pub i: usize,
}
impl<'a> Cur<'a> {
    pub fn n(&mut self) -> Option<u64> {
        let x = self.v.get(self.i).copied();
        self.i += 1;
        x
    }
    pub fn text(&mut self) -> Option<String> {
        let n = self.n()? as usize;
        let mut s = String::new();
        for _ in 0..n {
            s.push(char::from_u32(self.n()? as u32).unwrap_or('\u{fffd}'));
        }
        Some(s)
    }
    /// labelled text: (cp, label) pairs
    pub fn ltext(&mut self) -> Option<(String, Vec<u64>)> {
        let n = self.n()? as usize;
        let mut s = String::new();
        let mut labs = Vec::new();
        for _ in 0..n {
            s.push(char::from_u32(self.n()? as u32).unwrap_or('\u{fffd}'));
            labs.push(self.n()?);
        }
        Some((s, labs))
    }
}

pub fn outcome_from_wire(v: &[u64]) -> Option<(Outcome, Vec<Vec<Vec<u64>>>)> {
    let mut c = Cur { v, i: 0 };
    let k = c.n()?;
    let mut labels = Vec::new();
    let o = match k {
        0 => Outcome::Str(c.text()?),
        1 => Outcome::TooNarrow,
        2 => Outcome::Panic(format!("site {}", c.n().unwrap_or(0))),
        3 => Outcome::Hang,
        4 => Outcome::CssError,
        5 | 6 => {
            let nl = c.n()? as usize;
            let mut ls = Vec::new();
            for _ in 0..nl {
                let ne = c.n()? as usize;
                let mut l = Vec::new();
                let mut ll = Vec::new();
                for _ in 0..ne {
                    match c.n()? {
                        0 => {
                            let s = if k == 6 {
                                let (s, labs) = c.ltext()?;
                                ll.push(labs);
                                s
                            } else {
                                c.text()?
                            };
                            let nt = c.n()? as usize;
                            let mut tag = Vec::new();
                            for _ in 0..nt {
                                tag.push(match c.n()? {
                                    0 => Ann::Default,
                                    1 => Ann::Link(c.text()?),
                                    2 => Ann::Image(c.text()?),
                                    3 => Ann::Em,
                                    4 => Ann::Strong,
                                    5 => Ann::Strike,
                                    6 => Ann::Code,
                                    7 => Ann::Pre(c.n()? != 0),
                                    8 => Ann::Colour(c.n()? as u8, c.n()? as u8, c.n()? as u8),
                                    9 => Ann::Bg(c.n()? as u8, c.n()? as u8, c.n()? as u8),
                                    _ => return None,
                                });
                            }
                            l.push(Elem::Str(s, tag));
                        }
                        1 => {
                            l.push(Elem::Frag(c.text()?));
                            if k == 6 {
                                ll.push(vec![]);
                            }
                        }
                        _ => return None,
                    }
                }
                ls.push(l);
                labels.push(ll);
            }
            Outcome::Lines(ls)
        }
        7 => Outcome::OtherErr("other".into()),
        8 => Outcome::OtherErr("model stack overflow".into()),
        9 => Outcome::OtherErr("malformed case".into()),
        _ => return None,
    };
    Some((o, labels))
}

fn parse_reply(line: &str) -> Option<(usize, RunResult)> {
    let mut it = line.split(' ').filter(|t| !t.is_empty());
    let id: usize = it.next()?.parse().ok()?;
    let regular = it.next()? == "1";
    let ms: u64 = it.next()?.parse().ok()?;
    if it.next()? != "D" {
        return None;
    }
    let nd: usize = it.next()?.parse().ok()?;
    let mut dom_wire = Vec::with_capacity(nd);
    for _ in 0..nd {
        dom_wire.push(it.next()?.parse().ok()?);
    }
    if it.next()? != "O" {
        return None;
    }
    let no: usize = it.next()?.parse().ok()?;
    let mut ow = Vec::with_capacity(no);
    for _ in 0..no {
        ow.push(it.next()?.parse().ok()?);
    }
    if it.next()? != "P" {
        return None;
    }
    let msg = String::from_utf8_lossy(&unhex(it.next()?)).to_string();
    let mut outcome = outcome_from_wire(&ow)?.0;
    if let Outcome::Panic(_) = outcome {
        outcome = Outcome::Panic(msg.clone());
    }
    let mut history = Vec::new();
    while let Some(t) = it.next() {
        if t != "H" {
            break;
        }
        let cc: usize = it.next()?.parse().ok()?;
        let n: usize = it.next()?.parse().ok()?;
        let mut w = Vec::with_capacity(n);
        for _ in 0..n {
            w.push(it.next()?.parse().ok()?);
        }
        history.push((outcome_from_wire(&w)?.0, cc));
    }
    Some((id, RunResult { regular, dom_wire, outcome, history, panic_msg: msg, ms }))
}

struct WorkerProc {
    child: Child,
    rx: mpsc::Receiver<String>,
}
fn spawn_worker() -> WorkerProc {
    let exe = std::env::current_exe().unwrap();
    let mut child = Command::new(exe)
        .arg("worker")
        .stdin(Stdio::piped())
        .stdout(Stdio::piped())
        .stderr(Stdio::null())
        .spawn()
        .expect("spawn worker");
    let stdout = child.stdout.take().unwrap();
    let (tx, rx) = mpsc::channel();
    std::thread::spawn(move || {
        let r = BufReader::new(stdout);
        for line in r.lines() {
            match line {
                Ok(l) => {
                    if tx.send(l).is_err() {
                        break;
                    }
                }
                Err(_) => break,
            }
        }
    });
    WorkerProc { child, rx }
}

/// Run all specs through a pool of worker processes.  A worker that exceeds the
/// deadline is killed (outcome Hang); one that dies is recorded as Panic("abort…").
pub fn run_pool(specs: Vec<Spec>, nworkers: usize, deadline: Duration) -> Vec<Option<RunResult>> {
    let n = specs.len();
    let results: Arc<Mutex<Vec<Option<RunResult>>>> = Arc::new(Mutex::new(vec![None; n]));
    let queue = Arc::new(Mutex::new(specs.into_iter().enumerate().collect::<Vec<_>>()));
    {
        let mut q = queue.lock().unwrap();
        q.reverse();
    }
    let mut handles = Vec::new();
    for _ in 0..nworkers.max(1) {
        let queue = queue.clone();
        let results = results.clone();
        handles.push(std::thread::spawn(move || {
            let mut w = spawn_worker();
            loop {
                let item = queue.lock().unwrap().pop();
                let (idx, spec) = match item {
                    Some(x) => x,
                    None => break,
                };
                let line = spec_to_line(&spec);
                let sent = {
                    let stdin = w.child.stdin.as_mut().unwrap();
                    writeln!(stdin, "{}", line).and_then(|_| stdin.flush()).is_ok()
                };
                let t0 = Instant::now();
                let res = if !sent {
                    Err(mpsc::RecvTimeoutError::Disconnected)
                } else {
                    w.rx.recv_timeout(deadline)
                };
                let rr = match res {
                    Ok(reply) => parse_reply(&reply).map(|(_, r)| r).unwrap_or(RunResult {
                        regular: false,
                        dom_wire: vec![],
                        outcome: Outcome::OtherErr(format!("bad reply: {}", &reply[..reply.len().min(80)])),
                        history: vec![],
                        panic_msg: String::new(),
                        ms: 0,
                    }),
                    Err(mpsc::RecvTimeoutError::Timeout) => {
                        let _ = w.child.kill();
                        let _ = w.child.wait();
                        w = spawn_worker();
                        RunResult {
                            regular: false,
                            dom_wire: vec![],
                            outcome: Outcome::Hang,
                            history: vec![],
                            panic_msg: String::new(),
                            ms: t0.elapsed().as_millis() as u64,
                        }
                    }
                    Err(mpsc::RecvTimeoutError::Disconnected) => {
                        let st = w.child.wait().ok();
                        w = spawn_worker();
                        RunResult {
                            regular: false,
                            dom_wire: vec![],
                            outcome: Outcome::Panic(format!("abort: worker died ({:?})", st)),
                            history: vec![],
                            panic_msg: format!("abort: worker died ({:?})", st),
                            ms: t0.elapsed().as_millis() as u64,
                        }
                    }
                };
                results.lock().unwrap()[idx] = Some(rr);
            }
            let _ = w.child.kill();
            let _ = w.child.wait();
        }));
    }
    for h in handles {
        let _ = h.join();
    }
    let r = results.lock().unwrap().clone();
    r
}

/// Run the OCaml driver on (id, wire ints) cases; returns id -> outcome wire.
pub fn run_driver(driver: &str, dir: &str, cases: &[(usize, Vec<u64>)], shards: usize) -> std::collections::HashMap<usize, Vec<u64>> {
    let mut out = std::collections::HashMap::new();
    if cases.is_empty() {
        return out;
    }
    let shards = shards.max(1).min(cases.len());
    let mut children = Vec::new();
    for s in 0..shards {
        let inp = format!("{}/model_in_{}.txt", dir, s);
        let outp = format!("{}/model_out_{}.txt", dir, s);
        {
            let mut f = std::io::BufWriter::new(std::fs::File::create(&inp).unwrap());
            for (i, (id, ints)) in cases.iter().enumerate() {
                if i % shards == s {
                    writeln!(f, "{} {}", id, ints_to_string(ints)).unwrap();
                }
            }
        }
        let child = Command::new("sh")
            .arg("-c")
            .arg(format!("ulimit -s unlimited 2>/dev/null; exec '{}' '{}' '{}'", driver, inp, outp))
            .spawn()
            .expect("spawn driver");
        children.push((child, inp, outp));
    }
    for (mut child, inp, outp) in children {
        let _ = child.wait();
        if let Ok(f) = std::fs::File::open(&outp) {
            for line in BufReader::new(f).lines().flatten() {
                let mut it = line.split(' ');
                if let Some(Ok(id)) = it.next().map(|x| x.parse::<usize>()) {
                    let ints: Vec<u64> = it.filter_map(|x| x.parse().ok()).collect();
                    out.insert(id, ints);
                }
            }
        }
        let _ = std::fs::remove_file(&inp);
        let _ = std::fs::remove_file(&outp);
    }
    out
}
