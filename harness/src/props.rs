//! Per-property case generation, correspondence and checkers.
use crate::core::*;
use crate::gen::*;
use crate::json::{obj, s, J};
use crate::pool::*;
use std::collections::{BTreeMap, HashMap, HashSet};
use std::time::{Duration, Instant};

#[derive(Clone, Debug)]
pub enum Meta {
    None,
    /// C04: words and effective width; `exact` = TooNarrow is predictable too
    Para { words: Vec<String>, eff_width: usize, prefix: String, exact: bool },
    /// generic: a role within a relational group, strings and numbers for the checker
    G { role: &'static str, strs: Vec<String>, nums: Vec<i64> },
}
impl Meta {
    pub fn role(&self) -> &'static str {
        match self {
            Meta::G { role, .. } => role,
            _ => "",
        }
    }
    pub fn strs(&self) -> &[String] {
        match self {
            Meta::G { strs, .. } => strs,
            _ => &[],
        }
    }
    pub fn nums(&self) -> &[i64] {
        match self {
            Meta::G { nums, .. } => nums,
            _ => &[],
        }
    }
}
pub fn g(role: &'static str) -> Meta {
    Meta::G { role, strs: vec![], nums: vec![] }
}

#[derive(Clone, Debug)]
pub struct Case {
    pub spec: Spec,
    pub group: usize,
    /// route code for the model (0 string, 1 lines, 2 labelled lines); None = implementation only
    pub model_route: Option<u64>,
    pub meta: Meta,
    pub slice: &'static str,
}

#[derive(Clone, Debug)]
pub struct Violation {
    pub case_idx: usize,
    pub clause: String,
    pub detail: String,
    pub known: Option<String>,
}

pub struct PropDef {
    pub id: &'static str,
    pub generate: fn(&str, &mut Rng) -> Vec<Case>,
    /// checker on the implementation's results (whole run, so relational checks can group)
    pub check: fn(&[Case], &[Option<RunResult>]) -> Vec<Violation>,
    /// is this (case, result) non-trivial for the property?
    pub nontrivial: fn(&Case, &RunResult) -> bool,
    /// observable compared between implementation and model
    pub project: fn(&Outcome) -> Outcome,
    pub deadline_ms: u64,
    /// optional check on the model's labelled output (route 2): (case, impl result, model
    /// outcome, per line / per element character labels)
    pub check_model: Option<fn(usize, &Case, &RunResult, &Outcome, &Vec<Vec<Vec<u64>>>) -> Option<Violation>>,
}

pub fn case_counter() -> usize {
    0
}

pub fn mk_case(id: usize, route: u32, cfg: Cfg, width: usize, html: Vec<u8>, model_route: Option<u64>, meta: Meta, slice: &'static str) -> Case {
    Case {
        spec: Spec { id, route, cfg, width, widths: vec![], html, want_dom: true },
        group: id,
        model_route,
        meta,
        slice,
    }
}

pub fn ident(o: &Outcome) -> Outcome {
    o.clone()
}

// ======================================================================
// C04  greedy wrapping
// ======================================================================
pub fn cw(c: char) -> usize {
    unicode_width::UnicodeWidthChar::width(c).unwrap_or(0)
}

/// Reference greedy wrapper (independent of the implementation): Err(()) = too narrow.
pub fn greedy_wrap(words: &[String], w: usize) -> Result<Vec<String>, ()> {
    let mut lines: Vec<String> = Vec::new();
    let mut cur = String::new();
    let mut curw = 0usize;
    for word in words {
        let ww: usize = word.chars().map(cw).sum();
        let need = if cur.is_empty() { ww } else { ww + 1 };
        if curw + need <= w {
            if !cur.is_empty() {
                cur.push(' ');
            }
            cur.push_str(word);
            curw += need;
            continue;
        }
        if !cur.is_empty() {
            lines.push(std::mem::take(&mut cur));
            curw = 0;
        }
        // hard wrap: maximal prefixes
        for c in word.chars() {
            let c_w = cw(c);
            if curw + c_w > w {
                if cur.is_empty() {
                    return Err(());
                }
                lines.push(std::mem::take(&mut cur));
                curw = 0;
                if c_w > w {
                    return Err(());
                }
            }
            cur.push(c);
            curw += c_w;
        }
    }
    if !cur.is_empty() {
        lines.push(cur);
    }
    Ok(lines)
}

fn word_shapes() -> Vec<String> {
    // width profiles {1,2,3,5,7} x classes {narrow, wide-mix, combining}
    let mut v = Vec::new();
    for &w in &[1usize, 2, 3, 5, 7] {
        let narrow: String = "abcdefg".chars().take(w).collect();
        v.push(narrow.clone());
        // wide mix: as many wide chars as fit, then a narrow one for odd widths
        if w >= 2 {
            let mut s = String::new();
            let mut left = w;
            let mut i = 0;
            while left >= 2 {
                s.push(WIDE[i % WIDE.len()]);
                i += 1;
                left -= 2;
            }
            if left == 1 {
                s.push('x');
            }
            v.push(s);
        }
        // combining: each char followed by U+0301 on the first char
        let mut s = String::new();
        for (i, c) in narrow.chars().enumerate() {
            s.push(c);
            if i % 2 == 0 {
                s.push('\u{301}');
            }
        }
        v.push(s);
    }
    v
}

fn para_html(rng: &mut Rng, words: &[String], layout: usize) -> String {
    let html = para_html0(rng, words, layout);
    // a fragment marker as the first thing in the paragraph (it opens the wrapping block)
    match rng.below(8) {
        0 => html.replacen("<p>", "<p id=\"pid\">", 1),
        1 => html.replacen("<p>", "<p><a name=\"top\"></a>", 1),
        2 => html.replacen("<p>", "<p><span id=\"sid\"></span>", 1),
        _ => html,
    }
}
fn para_html0(rng: &mut Rng, words: &[String], layout: usize) -> String {
    match layout {
        0 => format!("<p>{}</p>", words.join(" ")),
        1 => {
            let mut s = String::from("<p>");
            if rng.chance(1, 2) {
                s.push_str(" \n ");
            }
            for (i, w) in words.iter().enumerate() {
                if i > 0 {
                    s.push_str(*rng.pick(&[" ", "  ", "\n", "\t ", " \n  "]));
                }
                s.push_str(w);
            }
            if rng.chance(1, 2) {
                s.push_str("\n");
            }
            s.push_str("</p>");
            s
        }
        _ => {
            // split the character stream over text nodes and inline elements
            let full = words.join(" ");
            let chars: Vec<char> = full.chars().collect();
            let mut s = String::from("<p>");
            let mut i = 0;
            let mut open: Vec<&str> = Vec::new();
            while i < chars.len() {
                let step = rng.range(1, 5).min(chars.len() - i);
                if rng.chance(1, 2) && open.len() < 3 {
                    let name = *rng.pick(&["em", "strong", "code", "span", "i"]);
                    s.push_str(&format!("<{}>", name));
                    open.push(name);
                } else if !open.is_empty() && rng.chance(1, 2) {
                    let name = open.pop().unwrap();
                    s.push_str(&format!("</{}>", name));
                }
                for c in &chars[i..i + step] {
                    s.push(*c);
                }
                i += step;
            }
            while let Some(name) = open.pop() {
                s.push_str(&format!("</{}>", name));
            }
            s.push_str("</p>");
            s
        }
    }
}

fn gen_c04(tier: &str, rng: &mut Rng) -> Vec<Case> {
    let mut cases = Vec::new();
    let shapes = word_shapes();
    let thorough = tier == "thorough";
    let max_words = if thorough { 4 } else { 3 };
    let max_w = if thorough { 24 } else { 12 };
    // exhaustive part: all sequences of 1..max_words shapes, widths 1..max_w
    let mut seqs: Vec<Vec<usize>> = vec![vec![]];
    let mut all: Vec<Vec<usize>> = Vec::new();
    for _ in 0..max_words {
        let mut next = Vec::new();
        for sq in &seqs {
            for i in 0..shapes.len() {
                let mut n = sq.clone();
                n.push(i);
                next.push(n);
            }
        }
        all.extend(next.iter().cloned());
        seqs = next;
    }
    // thin the 4-word level in thorough mode to keep the run in minutes
    let stride4 = if thorough { 3 } else { 1 };
    let mut k = 0usize;
    for sq in &all {
        if sq.len() == 4 {
            k += 1;
            if k % stride4 != 0 {
                continue;
            }
        }
        let words: Vec<String> = sq.iter().map(|&i| shapes[i].clone()).collect();
        for w in 1..=max_w {
            let layout = rng.below(3);
            let html = para_html(rng, &words, layout);
            let deco = *rng.pick(&[1u8, 2, 3]);
            let cfg = Cfg { deco, ..Default::default() };
            let id = cases.len();
            let route = if deco == 2 { 1 } else { 0 };
            cases.push(mk_case(
                id,
                route,
                cfg,
                w,
                html.into_bytes(),
                Some(route as u64),
                Meta::Para { words: words.clone(), eff_width: w, prefix: String::new(), exact: true },
                "exhaustive",
            ));
        }
    }
    // random part: up to 60 words, max_wrap_width, prefixed blocks
    let nrand = if thorough { 60000 } else { 6000 };
    for _ in 0..nrand {
        let nw = rng.range(1, 60);
        let mut words = Vec::new();
        for _ in 0..nw {
            let len = rng.range(1, 9);
            let mut wd = String::new();
            for _ in 0..len {
                match rng.below(10) {
                    0 => wd.push(*rng.pick(&WIDE)),
                    1 => {
                        wd.push('e');
                        wd.push('\u{301}');
                    }
                    _ => wd.push((b'a' + rng.below(26) as u8) as char),
                }
            }
            words.push(wd);
        }
        let w = rng.range(1, 40);
        let layout = rng.below(3);
        let inner = para_html(rng, &words, layout);
        let deco = *rng.pick(&[1u8, 2, 3]);
        let mut cfg = Cfg { deco, ..Default::default() };
        let kind = rng.below(4);
        let (html, eff, prefix, exact) = match kind {
            0 => (inner, w, String::new(), true),
            1 => {
                let m = rng.range(1, 45);
                cfg.max_wrap = Some(m);
                (inner, w.min(m), String::new(), true)
            }
            2 if deco != 3 => {
                // a maximum wrap width applies to the narrower block inside the prefix too
                let mut eff = w.saturating_sub(2);
                if rng.chance(1, 2) {
                    let m = rng.range(1, 45);
                    cfg.max_wrap = Some(m);
                    eff = eff.min(m);
                }
                (format!("<blockquote>{}</blockquote>", inner), eff, "> ".to_string(), false)
            }
            _ if deco != 3 => {
                let mut eff = w.saturating_sub(2);
                if rng.chance(1, 2) {
                    let m = rng.range(1, 45);
                    cfg.max_wrap = Some(m);
                    eff = eff.min(m);
                }
                (format!("<ul><li>{}</li></ul>", inner), eff, "* ".to_string(), false)
            }
            _ => (inner, w, String::new(), true),
        };
        let id = cases.len();
        let route = if deco == 2 { 1 } else { 0 };
        cases.push(mk_case(
            id,
            route,
            cfg,
            w,
            html.into_bytes(),
            Some(route as u64),
            Meta::Para { words, eff_width: eff, prefix, exact },
            "random",
        ));
    }
    cases
}

pub fn out_lines(o: &Outcome) -> Option<Vec<String>> {
    o.text().map(|t| {
        let mut v: Vec<String> = t.split('\n').map(|x| x.to_string()).collect();
        if v.last().map(|x| x.is_empty()).unwrap_or(false) {
            v.pop();
        }
        v
    })
}

fn check_c04(cases: &[Case], results: &[Option<RunResult>]) -> Vec<Violation> {
    let mut v = Vec::new();
    for (i, c) in cases.iter().enumerate() {
        let r = match &results[i] {
            Some(r) => r,
            None => continue,
        };
        if let Meta::Para { words, eff_width, prefix, exact } = &c.meta {
            let expect = greedy_wrap(words, *eff_width);
            match (&r.outcome, &expect) {
                (Outcome::TooNarrow, Err(())) => {}
                (Outcome::TooNarrow, Ok(_)) => {
                    if *exact {
                        v.push(Violation { case_idx: i, clause: "unexpected TooNarrow".into(), detail: String::new(), known: None });
                    }
                }
                (o, Ok(exp)) if o.is_ok() => {
                    let got = out_lines(o).unwrap();
                    // strip the block prefix: first line has the prefix, later lines the
                    // prefix (quote) or blanks of the same width (list item)
                    let mut stripped = Vec::new();
                    let mut bad = false;
                    for (li, l) in got.iter().enumerate() {
                        if prefix.is_empty() {
                            stripped.push(l.clone());
                        } else {
                            let p: String = if li == 0 || prefix.starts_with('>') { prefix.clone() } else { " ".repeat(prefix.len()) };
                            if let Some(rest) = l.strip_prefix(p.as_str()) {
                                stripped.push(rest.to_string());
                            } else {
                                bad = true;
                            }
                        }
                    }
                    if bad || &stripped != exp {
                        v.push(Violation {
                            case_idx: i,
                            clause: "lines differ from greedy reference".into(),
                            detail: format!("expected {:?} got {:?}", exp, got),
                            known: None,
                        });
                    }
                }
                (o, Err(())) if o.is_ok() => {
                    if *exact {
                        v.push(Violation { case_idx: i, clause: "rendered although a character is wider than the line".into(), detail: String::new(), known: None });
                    }
                }
                (o, _) => {
                    v.push(Violation { case_idx: i, clause: format!("unexpected outcome {}", o.kind()), detail: r.panic_msg.clone(), known: None });
                }
            }
        }
    }
    v
}

fn nontrivial_c04(_c: &Case, r: &RunResult) -> bool {
    out_lines(&r.outcome).map(|l| l.len() >= 2).unwrap_or(false)
}

// ======================================================================
pub fn prop_def(id: &str) -> Option<PropDef> {
    match id {
        "C04" => Some(PropDef { id: "C04", generate: gen_c04, check: check_c04, nontrivial: nontrivial_c04, project: ident, deadline_ms: 20000, check_model: None }),
        other => crate::props2::prop_def2(other),
    }
}

fn outcome_summary(o: &Outcome) -> J {
    match o {
        Outcome::Str(t) => obj(vec![("kind", s("ok")), ("text", s(t))]),
        Outcome::Lines(ls) => {
            let mut arr = Vec::new();
            for l in ls {
                let mut els = Vec::new();
                for e in l {
                    match e {
                        Elem::Str(t, tag) => els.push(obj(vec![("s", s(t)), ("tag", s(&format!("{:?}", tag)))])),
                        Elem::Frag(n) => els.push(obj(vec![("frag", s(n))])),
                    }
                }
                arr.push(J::A(els));
            }
            obj(vec![("kind", s("ok")), ("lines", J::A(arr))])
        }
        Outcome::Panic(m) => obj(vec![("kind", s("panic")), ("message", s(m))]),
        other => obj(vec![("kind", s(other.kind()))]),
    }
}

fn case_json(c: &Case) -> J {
    obj(vec![
        ("id", J::I(c.spec.id as i64)),
        ("slice", s(c.slice)),
        ("route", J::I(c.spec.route as i64)),
        ("width", s(&c.spec.width.to_string())),
        ("widths", J::A(c.spec.widths.iter().map(|w| s(&w.to_string())).collect())),
        ("cfg_tokens", s(&c.spec.cfg.to_tokens())),
        ("cfg", s(&format!("{:?}", c.spec.cfg))),
        ("html", s(&String::from_utf8_lossy(&c.spec.html))),
        ("html_hex", s(&hex(&c.spec.html))),
        ("model_route", match c.model_route { Some(r) => J::I(r as i64), None => J::Null }),
    ])
}

/// Compare implementation and model observables (kinds only for failures).
fn agree(pi: &Outcome, pm: &Outcome) -> bool {
    match (pi, pm) {
        (Outcome::Panic(_), Outcome::Panic(_)) => true,
        (a, b) => a == b,
    }
}

fn known_findings(prop: &str) -> Vec<(String, String)> {
    // lines: finding: property=<id> key=<key> replay=<path> :: text
    let mut v = Vec::new();
    let path = std::env::var("VERIF_KNOWN").unwrap_or_else(|_| "/verif/KNOWN_FINDINGS.txt".into());
    if let Ok(t) = std::fs::read_to_string(path) {
        for line in t.lines() {
            let line = line.trim();
            if !line.starts_with("finding:") {
                continue;
            }
            if !line.contains(&format!("property={} ", prop)) {
                continue;
            }
            let key = line.split_whitespace().find_map(|t| t.strip_prefix("key=")).unwrap_or("").to_string();
            let what = line.splitn(2, " :: ").nth(1).unwrap_or("").trim().to_string();
            v.push((key, what));
        }
    }
    v
}

pub fn run_property(prop: &str, tier: &str, seed: u64, outdir: &str, driver: &str) -> i32 {
    let t0 = Instant::now();
    let def = match prop_def(prop) {
        Some(d) => d,
        None => {
            eprintln!("no such property {}", prop);
            return 2;
        }
    };
    std::fs::create_dir_all(outdir).unwrap();
    let mut rng = Rng::new(seed ^ 0x5EED);
    let mut cases = load_corpus(prop);
    let ncorpus = cases.len();
    for mut c in (def.generate)(tier, &mut rng) {
        c.spec.id += ncorpus;
        c.group += 1_000_000_000;
        cases.push(c);
    }
    let n = cases.len();
    let ncpu = std::thread::available_parallelism().map(|x| x.get()).unwrap_or(4);
    let specs: Vec<Spec> = cases.iter().map(|c| c.spec.clone()).collect();
    let results = run_pool(specs, ncpu, Duration::from_millis(def.deadline_ms));
    let t_impl = t0.elapsed().as_secs_f64();
    if let Ok(sl) = std::env::var("H2T_TRACE_SLICE") {
        for (i, c) in cases.iter().enumerate() {
            if c.slice == sl {
                if let Some(r) = &results[i] {
                    eprintln!("trace {} route {} deco {} len {} -> {} ({} ms) {}", i, c.spec.route, c.spec.cfg.deco, c.spec.html.len(), r.outcome.kind(), r.ms, r.panic_msg);
                }
            }
        }
    }

    // ---- model ----
    let mut model_in: Vec<(usize, Vec<u64>)> = Vec::new();
    let mut out_of_domain = 0usize;
    for (i, c) in cases.iter().enumerate() {
        if let (Some(route), Some(r)) = (c.model_route, &results[i]) {
            if !r.regular || r.dom_wire.is_empty() {
                out_of_domain += 1;
                continue;
            }
            let mut w = vec![route];
            c.spec.cfg.to_wire(&mut w);
            w.push(c.spec.width as u64);
            w.extend_from_slice(&r.dom_wire);
            model_in.push((i, w));
        }
    }
    let model_out = run_driver(driver, outdir, &model_in, ncpu);
    let t_model = t0.elapsed().as_secs_f64() - t_impl;

    // ---- correspondence ----
    let mut compared = 0usize;
    let mut disagreements: Vec<usize> = Vec::new();
    let mut model_missing = 0usize;
    let mut model_outcomes: HashMap<usize, Outcome> = HashMap::new();
    let mut model_violations: Vec<Violation> = Vec::new();
    for (i, _) in &model_in {
        match model_out.get(i).and_then(|w| outcome_from_wire(w)) {
            Some((mo, labels)) => {
                let r = results[*i].as_ref().unwrap();
                compared += 1;
                if let Some(f) = def.check_model {
                    if let Some(v) = f(*i, &cases[*i], r, &mo, &labels) {
                        model_violations.push(v);
                    }
                }
                let pi = (def.project)(&r.outcome);
                let pm = (def.project)(&mo);
                if !agree(&pi, &pm) {
                    disagreements.push(*i);
                }
                model_outcomes.insert(*i, mo);
            }
            None => model_missing += 1,
        }
    }

    // ---- checkers on the implementation's output ----
    let mut violations = (def.check)(&cases, &results);
    violations.extend(model_violations.into_iter());
    let known = known_findings(prop);
    let known_keys: HashSet<String> = known.iter().map(|(k, _)| k.clone()).collect();
    // a violation inside a listed class where the implementation still agrees with the
    // model is the recorded finding; everything else is new
    let disagree_set: HashSet<usize> = disagreements.iter().copied().collect();
    let mut known_seen: BTreeMap<String, usize> = BTreeMap::new();
    let mut new_violations: Vec<Violation> = Vec::new();
    for v in violations.drain(..) {
        match &v.known {
            Some(k) if known_keys.contains(k) && !disagree_set.contains(&v.case_idx) => {
                *known_seen.entry(k.clone()).or_insert(0) += 1;
            }
            _ => new_violations.push(v),
        }
    }

    // ---- statistics ----
    let mut kinds: BTreeMap<String, usize> = BTreeMap::new();
    let mut slices: BTreeMap<String, usize> = BTreeMap::new();
    let mut distinct: HashSet<Vec<u8>> = HashSet::new();
    let mut nontrivial = 0usize;
    let mut max_ms = 0u64;
    for (i, c) in cases.iter().enumerate() {
        if let Some(r) = &results[i] {
            *kinds.entry(r.outcome.kind().to_string()).or_insert(0) += 1;
            *slices.entry(c.slice.to_string()).or_insert(0) += 1;
            max_ms = max_ms.max(r.ms);
            if (def.nontrivial)(c, r) {
                let mut key = c.spec.html.clone();
                key.extend_from_slice(format!("|{}|{}|{}", c.spec.width, c.spec.route, c.spec.cfg.to_tokens()).as_bytes());
                if distinct.insert(key) {
                    nontrivial += 1;
                }
            }
        }
    }

    // ---- replays ----
    let replay_dir = format!("{}/replays", outdir);
    std::fs::create_dir_all(&replay_dir).unwrap();
    let mut report_lines: Vec<String> = Vec::new();
    let mut exit = 0;
    // smallest new violation first
    new_violations.sort_by_key(|v| cases[v.case_idx].spec.html.len());
    // one replay per distinct class of violation (clause + detail prefix), smallest first
    let mut vclasses: BTreeMap<String, usize> = BTreeMap::new();
    let mut picked: Vec<&Violation> = Vec::new();
    for v in new_violations.iter() {
        let sig = format!("{} | {}", v.clause, v.detail.chars().take(70).collect::<String>());
        let e = vclasses.entry(sig).or_insert(0);
        if *e == 0 && picked.len() < 12 {
            picked.push(v);
        }
        *e += 1;
    }
    for (k, v) in picked.iter().enumerate() {
        let c = &cases[v.case_idx];
        let r = results[v.case_idx].as_ref().unwrap();
        let path = format!("{}/{}-{}-{}.json", replay_dir, prop, seed, k);
        let j = obj(vec![
            ("property", s(prop)),
            ("kind", s("checker")),
            ("clause", s(&v.clause)),
            ("detail", s(&v.detail)),
            ("case", case_json(c)),
            ("impl", outcome_summary(&r.outcome)),
            ("model", model_outcomes.get(&v.case_idx).map(outcome_summary).unwrap_or(J::Null)),
            ("impl_agrees_with_model", J::B(!disagree_set.contains(&v.case_idx))),
        ]);
        std::fs::write(&path, j.to_string()).unwrap();
        if k == 0 {
            report_lines.push(format!("VIOLATION property={} replay={}", prop, path));
        }
        exit = 1;
    }
    if new_violations.is_empty() && !disagreements.is_empty() {
        // the tie is broken but no input violating the property itself was found
        let mut ds = disagreements.clone();
        ds.sort_by_key(|i| cases[*i].spec.html.len());
        let i = ds[0];
        let c = &cases[i];
        let r = results[i].as_ref().unwrap();
        let path = format!("{}/{}-{}-corr.json", replay_dir, prop, seed);
        let j = obj(vec![
            ("property", s(prop)),
            ("kind", s("correspondence")),
            ("broken", s(&format!("corr_{}: implementation and Coq model (H2T.Wire.run_case) differ on the {} observable", prop, prop))),
            ("disagreements", J::I(disagreements.len() as i64)),
            ("compared", J::I(compared as i64)),
            ("case", case_json(c)),
            ("impl", outcome_summary(&r.outcome)),
            ("model", model_outcomes.get(&i).map(outcome_summary).unwrap_or(J::Null)),
        ]);
        std::fs::write(&path, j.to_string()).unwrap();
        report_lines.push(format!("VIOLATION property={} replay={} no-failing-input-found", prop, path));
        exit = 1;
    }
    for (k, n) in &known_seen {
        let what = known.iter().find(|(kk, _)| kk == k).map(|(_, w)| w.clone()).unwrap_or_default();
        report_lines.push(format!("KNOWN-FINDING: property={} key={} ({} cases) {}", prop, k, n, what));
    }
    if model_missing > 0 {
        eprintln!("machinery fault: model produced no output for {} cases", model_missing);
        exit = if exit == 0 { 3 } else { exit };
    }

    // ---- samples ----
    let mut samples = Vec::new();
    let mut seen_slices: HashSet<&str> = HashSet::new();
    for (i, c) in cases.iter().enumerate() {
        if let Some(r) = &results[i] {
            if (def.nontrivial)(c, r) && seen_slices.insert(c.slice) {
                samples.push(obj(vec![
                    ("case", case_json(c)),
                    ("impl", outcome_summary(&r.outcome)),
                    ("model_agrees", match model_outcomes.get(&i) {
                        Some(_) => J::B(!disagree_set.contains(&i)),
                        None => J::Null,
                    }),
                ]));
            }
            if samples.len() >= 4 {
                break;
            }
        }
    }
    // sample for the vm_compute cross-check of extraction
    let mut vm = Vec::new();
    let vm_n = 40usize;
    let stride = (model_in.len() / vm_n.max(1)).max(1);
    for (k, (i, w)) in model_in.iter().enumerate() {
        if k % stride == 0 && w.len() < 1500 {
            if let Some(o) = model_out.get(i) {
                vm.push(obj(vec![
                    ("id", J::I(*i as i64)),
                    ("input", J::A(w.iter().map(|x| s(&x.to_string())).collect())),
                    ("output", J::A(o.iter().map(|x| s(&x.to_string())).collect())),
                ]));
            }
        }
        if vm.len() >= vm_n {
            break;
        }
    }

    let res = obj(vec![
        ("property", s(prop)),
        ("tier", s(tier)),
        ("seed", J::I(seed as i64)),
        ("evaluations", J::I(n as i64)),
        ("distinct_nontrivial", J::I(nontrivial as i64)),
        ("compared_with_model", J::I(compared as i64)),
        ("out_of_model_domain", J::I(out_of_domain as i64)),
        ("disagreements", J::I(disagreements.len() as i64)),
        ("checker_violations_new", J::I(new_violations.len() as i64)),
        ("violation_classes", J::O(vclasses.iter().map(|(k, v)| (k.clone(), J::I(*v as i64))).collect())),
        ("known_findings_seen", J::O(known_seen.iter().map(|(k, v)| (k.clone(), J::I(*v as i64))).collect())),
        ("outcome_kinds", J::O(kinds.iter().map(|(k, v)| (k.clone(), J::I(*v as i64))).collect())),
        ("slices", J::O(slices.iter().map(|(k, v)| (k.clone(), J::I(*v as i64))).collect())),
        ("max_case_ms", J::I(max_ms as i64)),
        ("impl_s", J::F(t_impl)),
        ("model_s", J::F(t_model)),
        ("wall_s", J::F(t0.elapsed().as_secs_f64())),
        ("samples", J::A(samples)),
        ("vm_sample", J::A(vm)),
        ("report", J::A(report_lines.iter().map(|l| s(l)).collect())),
    ]);
    std::fs::write(format!("{}/result.json", outdir), res.to_string()).unwrap();
    for l in &report_lines {
        println!("{}", l);
    }
    exit
}

/// corpus/<prop>.txt: one case per line:
///   `<key> <group|-> <slice|-> <role|-> <model_route|-> <spec line as sent to workers>`
/// (lines starting with '#' are comments).  Run before the generated cases on every run.
pub fn load_corpus(prop: &str) -> Vec<Case> {
    let root = std::env::var("VERIF_ROOT").unwrap_or_else(|_| "/verif".into());
    let mut v = Vec::new();
    if let Ok(t) = std::fs::read_to_string(format!("{}/corpus/{}.txt", root, prop)) {
        for line in t.lines() {
            let line = line.trim();
            if line.is_empty() || line.starts_with('#') {
                continue;
            }
            let mut it = line.splitn(6, ' ');
            let key = it.next().unwrap_or("-").to_string();
            let grp = it.next().unwrap_or("-");
            let slice = it.next().unwrap_or("-");
            let role = it.next().unwrap_or("-");
            let mr = it.next().unwrap_or("-");
            let rest = it.next().unwrap_or("");
            let mut spec = line_to_spec(rest);
            spec.id = v.len();
            spec.want_dom = true;
            let id = v.len();
            let slice: &'static str = if slice == "-" { "corpus" } else { Box::leak(slice.to_string().into_boxed_str()) };
            let role: &'static str = if role == "-" { "corpus" } else { Box::leak(role.to_string().into_boxed_str()) };
            v.push(Case {
                spec,
                group: grp.parse::<usize>().map(|g| 900_000_000 + g).unwrap_or(id),
                model_route: mr.parse().ok(),
                meta: Meta::G { role, strs: vec![key], nums: vec![] },
                slice,
            });
        }
    }
    v
}

/// `replay <file.json> <driver>`: re-run the case stored in a replay file on the implementation
/// (worker process, same watchdog) and on the model, and print both outcomes.
/// Exit 0 when implementation and model agree on the case, 1 when they differ, 2 on a bad file.
pub fn replay(file: &str, driver: &str) -> i32 {
    let text = match std::fs::read_to_string(file) {
        Ok(t) => t,
        Err(e) => {
            eprintln!("replay: cannot read {}: {}", file, e);
            return 2;
        }
    };
    // the "case" object is flat: pick the fields by key
    fn field<'a>(t: &'a str, key: &str) -> Option<&'a str> {
        let k = format!("\"{}\":", key);
        let p = t.find(&k)? + k.len();
        let rest = t[p..].trim_start();
        if let Some(r) = rest.strip_prefix('"') {
            let e = r.find('"')?;
            Some(&r[..e])
        } else {
            let e = rest.find(|c: char| c == ',' || c == '}').unwrap_or(rest.len());
            Some(rest[..e].trim())
        }
    }
    let cpos = match text.find("\"case\":") {
        Some(p) => p,
        None => {
            eprintln!("replay: no case object in {} (a proof/build failure replay names the obligation instead)", file);
            println!("{}", text);
            return 2;
        }
    };
    let t = &text[cpos..];
    let route = field(t, "route").unwrap_or("0");
    let width = field(t, "width").unwrap_or("80");
    let toks = field(t, "cfg_tokens").unwrap_or("");
    let hexs = field(t, "html_hex").unwrap_or("x");
    let mr: Option<u64> = field(t, "model_route").and_then(|x| x.parse().ok());
    let widths = {
        let k = "\"widths\":[";
        match t.find(k) {
            Some(p) => {
                let r = &t[p + k.len()..];
                let e = r.find(']').unwrap_or(0);
                let v: Vec<String> = r[..e].split(',').map(|x| x.trim().trim_matches('"').to_string()).filter(|x| !x.is_empty()).collect();
                if v.is_empty() { "-".to_string() } else { v.join(",") }
            }
            None => "-".to_string(),
        }
    };
    let line = format!("0 {} {} 1 {} {} {}", route, width, widths, toks, hexs);
    let spec = line_to_spec(&line);
    println!("document: {:?}", String::from_utf8_lossy(&spec.html));
    println!("route {} width {} config {:?}", spec.route, spec.width, spec.cfg);
    let results = run_pool(vec![spec.clone()], 1, Duration::from_millis(120000));
    let r = match &results[0] {
        Some(r) => r,
        None => {
            println!("implementation: no result");
            return 1;
        }
    };
    println!("implementation: {}", outcome_summary(&r.outcome).to_string());
    if !r.panic_msg.is_empty() {
        println!("panic message: {}", r.panic_msg);
    }
    let route_m = match mr {
        Some(m) => m,
        None => {
            println!("model: this case has no model route (implementation-only case)");
            return 0;
        }
    };
    if !r.regular || r.dom_wire.is_empty() {
        println!("model: case outside the model's domain (irregular widths or no DOM)");
        return 0;
    }
    let mut w = vec![route_m];
    spec.cfg.to_wire(&mut w);
    w.push(spec.width as u64);
    w.extend_from_slice(&r.dom_wire);
    let dir = std::env::temp_dir().join(format!("h2t-replay-{}", std::process::id()));
    let _ = std::fs::create_dir_all(&dir);
    let out = run_driver(driver, dir.to_str().unwrap(), &[(0usize, w)], 1);
    let _ = std::fs::remove_dir_all(&dir);
    match out.get(&0).and_then(|w| outcome_from_wire(w)) {
        Some((mo, _)) => {
            println!("model:          {}", outcome_summary(&mo).to_string());
            if agree(&r.outcome, &mo) {
                println!("implementation and model agree on this case");
                0
            } else {
                println!("implementation and model DIFFER on this case");
                1
            }
        }
        None => {
            println!("model: no answer");
            1
        }
    }
}

pub fn print_glyphs() {
    for c in [' ', '─', '┬', '┴', '┼', '│', '/', '[', ']', ':', '.', '*', '#', '>', '^', '{', '}', '\u{336}', '⁰', '¹', '²', '³', '⁴', '⁵', '⁶', '⁷', '⁸', '⁹', '-', '0', '9', '`'] {
        println!("{} {:?}", c as u32, unicode_width::UnicodeWidthChar::width(c));
    }
}
