//! Properties of the render family: C01 C02 C03 C08 C09 C10 C11 C13 C14 C15.
use crate::core::*;
use crate::dom::*;
use crate::gen::*;
use crate::pool::*;
use crate::props::*;

pub fn viol(i: usize, clause: &str, detail: String, known: Option<&str>) -> Violation {
    Violation { case_idx: i, clause: clause.to_string(), detail, known: known.map(|s| s.to_string()) }
}

/// Random configuration.  `ovf`: may set allow_width_overflow; `nolw`: may set no_link_wrapping.
pub fn rand_cfg(rng: &mut Rng, decos: &[u8], ovf: bool, nolw: bool) -> Cfg {
    let mut c = Cfg { deco: *rng.pick(decos), ..Default::default() };
    if rng.chance(1, 5) {
        c.max_wrap = Some(*rng.pick(&[1usize, 2, 3, 5, 8, 13, 20, 40, 80, 200]));
    }
    if rng.chance(1, 6) {
        c.pad = true;
    }
    if ovf && rng.chance(1, 4) {
        c.overflow = true;
    }
    if rng.chance(1, 6) {
        c.min_wrap = Some(*rng.pick(&[0usize, 1, 2, 3, 4, 5, 8, 12]));
    }
    if rng.chance(1, 8) {
        c.raw = *rng.pick(&[1u8, 2]);
    }
    if rng.chance(1, 8) {
        c.no_borders = true;
    }
    if nolw && rng.chance(1, 8) {
        c.no_link_wrap = true;
    }
    if rng.chance(1, 5) {
        c.footnotes = *rng.pick(&[1u8, 2]);
    }
    if rng.chance(1, 6) {
        c.strike = *rng.pick(&[1u8, 2]);
    }
    c
}

pub fn gen_doc(rng: &mut Rng, o: GenOpts) -> (String, Vec<H>) {
    let mut g = Gen::new(rng, o);
    let d = g.doc();
    (to_html(&d), d)
}

fn dom_of(r: &RunResult) -> Vec<DNode> {
    decode_dom(&r.dom_wire).unwrap_or_default()
}

// ======================================================================
// C01 totality
// ======================================================================
fn classify_c01(c: &Case, r: &RunResult) -> Option<&'static str> {
    let msg = &r.panic_msg;
    match &r.outcome {
        Outcome::Hang => {
            if c.spec.cfg.max_wrap == Some(0) {
                return Some("wrap_width_zero_hang");
            }
            None
        }
        Outcome::Panic(_) => {
            if msg.contains("text_renderer.rs") && !is_regular(&String::from_utf8_lossy(&c.spec.html)) {
                return Some("irregular_unicode_width");
            }
            if c.spec.cfg.pad && c.spec.width > (1usize << 40) && (msg.contains("capacity overflow") || msg.contains("alloc")) {
                return Some("pad_huge_width");
            }
            None
        }
        _ => None,
    }
}

fn gen_c01(tier: &str, rng: &mut Rng) -> Vec<Case> {
    let thorough = tier == "thorough";
    let n = if thorough { 200000 } else { 6000 };
    let mut cases = Vec::new();
    let widths_special: [usize; 8] = [0, 1, 2, 3, 100000, usize::MAX, 200, 7];
    for _ in 0..n {
        let (html, _) = gen_doc(rng, GenOpts { classes: true, colours: true, ..GenOpts::all() });
        let mut bytes = html.into_bytes();
        let k = rng.below(4);
        for _ in 0..k {
            bytes = mutate(rng, &bytes);
        }
        let mut cfg = rand_cfg(rng, &[0, 1, 2, 3, 4], true, true);
        if cfg.deco == 4 {
            cfg.custom = ["<", ">", "_", "_", "**", "**", "~", "~", "`", "`", "{", "}", "=", "| ", "- ", ") "]
                .iter()
                .map(|s| s.to_string())
                .collect();
        }
        if rng.chance(1, 3) {
            cfg.doc_css = true;
        }
        if rng.chance(1, 6) {
            cfg.user_css.push(rand_css(rng));
        }
        if rng.chance(1, 40) {
            cfg.max_wrap = Some(0);
        }
        let width = if rng.chance(1, 5) { *rng.pick(&widths_special) } else { rng.range(0, 200) };
        let route = rng.below(2) as u32;
        // the model is run where its arithmetic is meaningful (it has no allocator limits)
        let model = if width <= 100000 { Some(route as u64) } else { None };
        let id = cases.len();
        cases.push(mk_case(id, route, cfg, width, bytes, model, g("bytes"), "mutated"));
    }
    // prefixes that use up (almost) the whole width: tiny content - also tables - in 1-3 nested
    // prefixed blocks at widths 1..6, min_wrap_width(0..2), overflow, padding, max_wrap_width
    let np = if thorough { 40000 } else { 3000 };
    for _ in 0..np {
        let content = *rng.pick(&["x", "x y", "", "&#8203;", "中", "<em>x</em>", "x<br>y", "<a href=\"u\">x</a>", "<table><tr><td>x</td></tr></table>", "<table><tr><td>x</td></tr><tr><td>hello</td></tr></table>", "<table><tr><td>a</td><td>b</td></tr></table>", "<table><tr><td></td></tr></table>", "<pre>a\tb</pre>", "<sup></sup>"]);
        let mut html = content.to_string();
        for _ in 0..rng.range(1, 3) {
            html = match rng.below(6) {
                0 => format!("<ul><li>{}</li></ul>", html),
                1 => format!("<ol><li>{}</li></ol>", html),
                2 => format!("<blockquote>{}</blockquote>", html),
                3 => format!("<h{}>{}</h{}>", 1 + rng.below(3), html, 1),
                4 => format!("<dl><dt>t</dt><dd>{}</dd></dl>", html),
                _ => format!("<ol start=\"99\"><li>{}</li><li>z</li></ol>", html),
            };
        }
        if rng.chance(1, 2) {
            html = format!("<p>a</p>{}<p>b</p>", html);
        }
        let mut cfg = Cfg { deco: *rng.pick(&[0u8, 1, 2, 3]), ..Default::default() };
        if rng.chance(1, 2) {
            cfg.min_wrap = Some(rng.range(0, 3));
        }
        if rng.chance(1, 3) {
            cfg.max_wrap = Some(rng.range(0, 10));
        }
        cfg.overflow = rng.chance(1, 3);
        cfg.pad = rng.chance(1, 4);
        cfg.no_borders = rng.chance(1, 5);
        let width = rng.range(1, 8);
        let id = cases.len();
        cases.push(mk_case(id, 0, cfg, width, html.into_bytes(), Some(0), g("bytes"), "narrow_prefix"));
    }
    // extreme attributes
    let extremes = [
        "<ol start=\"9223372036854775807\"><li>a</li><li>b</li></ol>",
        "<ol start=\"-9223372036854775808\">x</ol>",
        "<ol start=\"9223372036854775806\"><li>a<li>b<li>c</ol>",
        "<table><tr><td colspan=18446744073709551615>a<td>b</table>",
        "<table><tr><td colspan=9223372036854775808>a<td colspan=9223372036854775808>b</table>",
        "<table><tr><td colspan=0>a<td>b<tr><td>c</table>",
        "<table><tr><td colspan=1000000000>a<td>b<tr><td>c<td colspan=999999999>d</table>",
        "<pre>\t</pre>",
        "<p>a \u{263a}\u{fe0f} b \u{263a}\u{fe0f}\u{263a}\u{fe0f}\u{263a}\u{fe0f}\u{263a}\u{fe0f}</p>",
        "<h1>x</h1><h6>y</h6><blockquote><ul><li><ol><li>z</ol></ul></blockquote>",
    ];
    for e in extremes.iter() {
        for &w in &[0usize, 1, 3, 10, 80, 100000, usize::MAX] {
            for deco in 0..4u8 {
                let id = cases.len();
                let model = if w <= 100000 { Some(0) } else { None };
                cases.push(mk_case(id, 0, Cfg { deco, ..Default::default() }, w, e.as_bytes().to_vec(), model, g("extreme"), "extreme"));
            }
        }
    }
    // sparse tables: many empty columns, a few cells with text, narrow widths
    let nsp = if thorough { 20000 } else { 1500 };
    for _ in 0..nsp {
        let ncols = if rng.chance(1, 10) { rng.range(20, 120) } else { rng.range(1, 14) };
        let nrows = rng.range(1, 3);
        let mut html = String::from("<table>");
        for _ in 0..nrows {
            html.push_str("<tr>");
            for _ in 0..ncols {
                if rng.chance(1, 5) {
                    html.push_str(&format!("<td>{}</td>", *rng.pick(&["x", "Hello", "ab cd", "中"])));
                } else if rng.chance(1, 12) {
                    html.push_str("<td colspan=3></td>");
                } else {
                    html.push_str("<td></td>");
                }
            }
            html.push_str("</tr>");
        }
        html.push_str("</table>");
        if rng.chance(1, 4) {
            html = format!("<ul><li>{}</li></ul>", html);
        }
        let cfg = rand_cfg(rng, &[0, 1, 2, 3], true, true);
        let width = if rng.chance(1, 4) { rng.range(0, 200) } else { rng.range(0, 14) };
        let id = cases.len();
        cases.push(mk_case(id, 0, cfg, width, html.into_bytes(), Some(0), g("sparse"), "sparse_tables"));
    }
    // ordered lists under a decorator whose numbering is widest in the middle of the list (roman
    // numerals): implementation only, the model's decorators number in decimal
    let nr = if thorough { 4000 } else { 400 };
    for _ in 0..nr {
        let start = *rng.pick(&[1i64, 5, 95, -2, 0, 3998, 37]);
        let items: String = (0..rng.range(1, 20)).map(|k| format!("<li>item {}</li>", k)).collect();
        let html = format!("<ol start=\"{}\">{}</ol>", start, items);
        let mut custom: Vec<String> = vec!["[", "]", "*", "*", "**", "**", "~", "~", "`", "`", "[", "]", "#", "> ", "* "].into_iter().map(String::from).collect();
        custom.push("ROMAN".to_string());
        let mut cfg = Cfg { deco: 4, custom, ..Default::default() };
        cfg.overflow = rng.chance(1, 2);
        if rng.chance(1, 4) {
            cfg.pad = true;
        }
        let width = *rng.pick(&[0usize, 1, 2, 5, 10, 40, 200, 100000]);
        let id = cases.len();
        cases.push(mk_case(id, 0, cfg, width, html.into_bytes(), None, g("roman"), "roman_numbering"));
    }
    // attribute values the renderer looks into, filled with short strings that mix ASCII, hex
    // digits and multi-byte characters at every byte offset
    let na = if thorough { 40000 } else { 2500 };
    for _ in 0..na {
        let mut val = String::new();
        for _ in 0..rng.range(0, 9) {
            val.push_str(*rng.pick(&["a", "f", "0", "9", "#", " ", "é", "中", "\u{1F600}", "-", "+", "1", "rgb(", ")", ",", "%", ";", ":", "x", "\u{301}", "n", "\t"]));
        }
        let mut esc = String::new();
        for c in val.chars() {
            match c {
                '&' => esc.push_str("&amp;"),
                '"' => esc.push_str("&quot;"),
                c => esc.push(c),
            }
        }
        let html = match rng.below(9) {
            0 => format!("<p>a <font color=\"{}\">x y</font> b</p>", esc),
            1 => format!("<table><tr><td bgcolor=\"{}\">x</td><td>y</td></tr></table>", esc),
            2 => format!("<table><tr><td colspan=\"{}\">x</td><td>y</td></tr><tr><td>z</td></tr></table>", esc),
            3 => format!("<ol start=\"{}\"><li>x</li><li>y</li></ol>", esc),
            4 => format!("<p><a href=\"{}\">x</a> <img src=\"{}\" alt=\"{}\"></p>", esc, esc, esc),
            5 => format!("<p style=\"color:{}\">x</p><p style=\"{}\">y</p>", esc, esc),
            6 => format!("<p id=\"{}\" class=\"{}\">x</p><a name=\"{}\">y</a>", esc, esc, esc),
            7 => format!("<body bgcolor=\"{}\" text=\"{}\"><p color=\"{}\">x</p></body>", esc, esc, esc),
            _ => format!("<p><span style=\"background:{};display:{}\">x</span></p>", esc, esc),
        };
        let mut cfg = rand_cfg(rng, &[0, 1, 2, 3], true, true);
        cfg.doc_css = rng.chance(2, 3);
        let width = rng.range(1, 40);
        let id = cases.len();
        cases.push(mk_case(id, 0, cfg, width, html.into_bytes(), Some(0), g("attr"), "attribute_values"));
    }
    // deep nesting (implementation only: stack / time)
    let depths: &[usize] = if thorough { &[1000, 10000, 30000, 100000] } else { &[500, 3000] };
    for &d in depths {
        for tag in ["div", "blockquote", "ul><li", "em", "table><tr><td", "span"] {
            // nested blocks cost quadratic time (100000 nested <div>: about a minute): the deepest
            // levels are for inline nesting, blocks stop at 10000
            let d = if tag == "em" || tag == "span" { d } else { d.min(10000) };
            let open = format!("<{}>", tag).repeat(d);
            let html = format!("{}x", open);
            for &w in &[10usize, 80] {
                let id = cases.len();
                let mut c = mk_case(id, 0, Cfg { deco: 0, ..Default::default() }, w, html.clone().into_bytes(), None, g("deep"), "deep");
                c.spec.want_dom = false;
                cases.push(c);
            }
        }
    }
    // deep nesting below an element whose end is handled specially (links drop empty content,
    // lists count items, tables size cells, pre/sup/strikeout look at their children)
    let d2 = 100000;
    for wrapper in ["<a href=\"u\">", "<ol id=\"o\"><li>", "<sup>", "<s>", "<pre>", "<table><tr><td colspan=\"2\">", "<dl><dt>", "<h3>", "<a href=\"u\"><img alt=\"i\" src=\"s\">"] {
        for (tag, deco) in [("span", 0u8), ("span", 2), ("span", 3), ("div", 0), ("div", 3), ("em", 0), ("em", 2), ("em", 3)] {
            // the rich decorator copies the annotation stack per element (quadratic in the depth:
            // 100000 nested <em> take minutes), so it gets a smaller depth
            // nested blocks are quadratic too (100000 nested <div> take about a minute)
            let depth = if deco == 2 || tag == "div" { d2 / 10 } else { d2 };
            let html = format!("<p>before</p>{}{}deep", wrapper, format!("<{}>", tag).repeat(depth));
            let id = cases.len();
            // route 30 = the string route on a 1.5 MiB stack
            let mut c = mk_case(id, 30, Cfg { deco, ..Default::default() }, 40, html.into_bytes(), None, g("deep"), "deep_wrapped");
            c.spec.want_dom = false;
            cases.push(c);
        }
    }
    cases
}

pub fn rand_css(rng: &mut Rng) -> String {
    let sels = ["p", "div", ".ca", "#id1", "li:nth-child(2n+1)", "ul > li", "div p", "*", "em", "td", "h1, h2", "span.cb", "li:nth-child(odd)"];
    let decls = [
        "color:red", "color:#0f0", "background-color:rgb(1,2,3)", "display:none", "white-space:pre",
        "color: blue !important", "height:0;overflow:hidden", "foo:bar", "white-space: pre-wrap", "background: url(x) , #123",
    ];
    let mut s = String::new();
    for _ in 0..rng.range(1, 4) {
        s.push_str(*rng.pick(&sels));
        s.push('{');
        for _ in 0..rng.range(1, 3) {
            s.push_str(*rng.pick(&decls));
            s.push(';');
        }
        s.push('}');
    }
    s
}

fn check_c01(cases: &[Case], results: &[Option<RunResult>]) -> Vec<Violation> {
    let mut v = Vec::new();
    for (i, c) in cases.iter().enumerate() {
        let r = match &results[i] {
            Some(r) => r,
            None => continue,
        };
        match &r.outcome {
            Outcome::Str(_) | Outcome::Lines(_) | Outcome::TooNarrow => {
                if c.spec.width == 0 && r.outcome.is_ok() {
                    v.push(viol(i, "width 0 rendered", String::new(), None));
                }
            }
            Outcome::CssError if !c.spec.cfg.user_css.is_empty() || !c.spec.cfg.agent_css.is_empty() => {}
            o => {
                v.push(viol(i, &format!("outcome {}", o.kind()), r.panic_msg.clone(), classify_c01(c, r)));
            }
        }
    }
    v
}
fn nontrivial_c01(_c: &Case, r: &RunResult) -> bool {
    match &r.outcome {
        Outcome::Str(s) => s.len() > 4,
        Outcome::Lines(l) => l.len() > 1,
        Outcome::TooNarrow => true,
        _ => false,
    }
}

// ======================================================================
// C02 width bound
// ======================================================================
fn gen_c02(tier: &str, rng: &mut Rng) -> Vec<Case> {
    let n = if tier == "thorough" { 200000 } else { 6000 };
    let mut cases = Vec::new();
    for _ in 0..n {
        let (html, _) = gen_doc(rng, GenOpts::all());
        let mut bytes = html.into_bytes();
        if rng.chance(1, 5) {
            bytes = mutate(rng, &bytes);
        }
        let cfg = rand_cfg(rng, &[0, 1, 2, 3], false, false);
        let width = if rng.chance(1, 3) { rng.range(1, 12) } else { rng.range(1, 120) };
        let id = cases.len();
        cases.push(mk_case(id, 0, cfg, width, bytes, Some(0), g(""), "grammar"));
    }
    // prefixes that use up (almost) the whole width: tiny content in 1-3 nested prefixed blocks,
    // widths 1..6, every mix of max_wrap_width / min_wrap_width(0..2) / padding
    let np = if tier == "thorough" { 40000 } else { 3000 };
    for _ in 0..np {
        let content = *rng.pick(&["x", "x y", "ab", "", "&#8203;", "中", "<em>x</em>", "x<br>y", "<a href=\"u\">x</a>", "<table><tr><td>x</td></tr></table>"]);
        let mut html = content.to_string();
        for _ in 0..rng.range(1, 3) {
            html = match rng.below(6) {
                0 => format!("<ul><li>{}</li></ul>", html),
                1 => format!("<ol><li>{}</li></ol>", html),
                2 => format!("<blockquote>{}</blockquote>", html),
                3 => format!("<h1>{}</h1>", html),
                4 => format!("<dl><dt>t</dt><dd>{}</dd></dl>", html),
                _ => format!("<ol start=\"99\"><li>{}</li><li>z</li></ol>", html),
            };
        }
        let mut cfg = Cfg { deco: *rng.pick(&[0u8, 1, 2, 3]), ..Default::default() };
        if rng.chance(1, 2) {
            cfg.max_wrap = Some(rng.range(0, 10));
        }
        if rng.chance(1, 2) {
            cfg.min_wrap = Some(rng.range(0, 3));
        }
        cfg.pad = rng.chance(1, 4);
        let width = rng.range(1, 6);
        let id = cases.len();
        cases.push(mk_case(id, 0, cfg, width, html.into_bytes(), Some(0), g(""), "narrow_prefix"));
    }
    // preformatted lines whose white space ends at (or next to) the right margin, then a tab and a
    // word about as long as the width: pending white space is carried over to the next line
    let nm = if tier == "thorough" { 40000 } else { 3000 };
    for _ in 0..nm {
        let width = rng.range(2, 24);
        let a = rng.range(0, width.min(9));
        let sp = (width - a.min(width)).saturating_sub(rng.below(3)) + rng.below(2);
        let head: String = "abcdefghi".chars().take(a).collect();
        let tabs = *rng.pick(&["\t", "\t", "", "\t\t", " \t"]);
        let wl = rng.range(1, width + 2);
        let word: String = "0123456789ABCDEFGHIJKLMNOPQ".chars().take(wl).collect();
        let tail = *rng.pick(&["\nend", " x\nend", "", "\t", "  "]);
        let body = format!("{}{}{}{}{}", head, " ".repeat(sp), tabs, word, tail);
        let html = match rng.below(5) {
            0 => format!("<ul><li><pre>{}</pre></li></ul>", body),
            1 => format!("<blockquote><pre>{}</pre></blockquote>", body),
            2 => format!("<p style=\"white-space:pre-wrap\">{}</p>", body),
            _ => format!("<pre>{}</pre>", body),
        };
        let mut cfg = Cfg { deco: *rng.pick(&[0u8, 1, 2, 3]), ..Default::default() };
        cfg.doc_css = true;
        cfg.pad = rng.chance(1, 5);
        let id = cases.len();
        cases.push(mk_case(id, 0, cfg, width + rng.below(4), html.into_bytes(), Some(0), g(""), "pre_margin"));
    }
    cases
}
fn check_c02(cases: &[Case], results: &[Option<RunResult>]) -> Vec<Violation> {
    let mut v = Vec::new();
    for (i, c) in cases.iter().enumerate() {
        let r = match &results[i] {
            Some(r) => r,
            None => continue,
        };
        if !r.regular {
            continue;
        }
        if let Some(lines) = out_lines(&r.outcome) {
            for l in &lines {
                let w = str_width(l);
                if w > c.spec.width {
                    let dom = dom_of(r);
                    let mut wide_href = false;
                    walk(&dom, &mut |n, _| {
                        if n.is("a") {
                            if let Some(h) = n.attr("href") {
                                if h.chars().any(|ch| cw(ch) > c.spec.width) {
                                    wide_href = true;
                                }
                            }
                        }
                    });
                    let known = if wide_href && l.chars().any(|ch| cw(ch) > c.spec.width) { Some("footnote_wide_char") } else { None };
                    v.push(viol(i, "line wider than the width", format!("width {} line {:?} ({} columns)", c.spec.width, l, w), known));
                    break;
                }
            }
        }
    }
    v
}
fn nontrivial_c02(_c: &Case, r: &RunResult) -> bool {
    out_lines(&r.outcome).map(|l| l.len() >= 2).unwrap_or(false)
}

// ======================================================================
// C10 routes / determinism / histories
// ======================================================================
fn gen_c10(tier: &str, rng: &mut Rng) -> Vec<Case> {
    let n = if tier == "thorough" { 30000 } else { 1200 };
    let mut cases = Vec::new();
    for gi in 0..n {
        let (html, _) = gen_doc(rng, GenOpts::all());
        // now and then a document that renders to (almost) nothing
        let html = if rng.chance(1, 12) {
            rng.pick(&["<br>", "<p><br></p>", "<div><br></div>", "<pre>\n\n</pre>", "", " ", "<p></p>", "<br><br>", "<p>&#8203;</p>", "<hr>", "<ul><li></li></ul>", "<p id=\"x\"></p>"]).to_string()
        } else {
            html
        };
        let mut cfg = rand_cfg(rng, &[0, 1, 2, 3], true, true);
        // one in four: the document carries its own sheet (hiding, white space, colour)
        let html = if rng.chance(1, 3) {
            // (with the option off the sheet must be inert on every route)
            cfg.doc_css = rng.chance(2, 3);
            format!("<style>p{{color:#f00}} li{{white-space:pre}} h2,h3,blockquote p{{display:none}} em{{background-color:#00f}}</style>{}", html)
        } else {
            html
        };
        let bytes = html.into_bytes();
        let nw = rng.range(2, 6);
        let mut widths: Vec<usize> = (0..nw).map(|_| if rng.chance(1, 6) { rng.range(0, 3) } else { rng.range(1, 100) }).collect();
        if rng.chance(1, 2) {
            let w0 = widths[0];
            widths.push(w0); // a repeat
        }
        // one-shot routes at every width of the history
        let mut seen = std::collections::HashSet::new();
        for &w in &widths {
            if !seen.insert(w) {
                continue;
            }
            for route in [0u32, 1, 11, 12, 10] {
                if route == 10 && cfg.deco != 2 {
                    continue;
                }
                let id = cases.len();
                let model = if route <= 1 { Some(route as u64) } else { None };
                let mut c = mk_case(id, route, cfg.clone(), w, bytes.clone(), model, g("oneshot"), "oneshot");
                c.group = gi;
                cases.push(c);
            }
            // determinism: the same call again
            let id = cases.len();
            let mut c = mk_case(id, 0, cfg.clone(), w, bytes.clone(), None, g("repeat"), "repeat");
            c.group = gi;
            cases.push(c);
        }
        for route in [20u32, 21] {
            let id = cases.len();
            let mut c = mk_case(id, route, cfg.clone(), 0, bytes.clone(), None, g("history"), "history");
            c.spec.widths = widths.clone();
            c.group = gi;
            cases.push(c);
        }
    }
    cases
}
fn check_c10(cases: &[Case], results: &[Option<RunResult>]) -> Vec<Violation> {
    use std::collections::HashMap;
    let mut v = Vec::new();
    let mut groups: HashMap<usize, Vec<usize>> = HashMap::new();
    for (i, c) in cases.iter().enumerate() {
        groups.entry(c.group).or_default().push(i);
    }
    for (_, idxs) in groups {
        // reference per width: route 0
        let mut by_width: HashMap<usize, Option<String>> = HashMap::new();
        let mut kind_by_width: HashMap<usize, &'static str> = HashMap::new();
        for &i in &idxs {
            if cases[i].spec.route == 0 && cases[i].meta.role() == "oneshot" {
                if let Some(r) = &results[i] {
                    by_width.insert(cases[i].spec.width, r.outcome.text());
                    kind_by_width.insert(cases[i].spec.width, r.outcome.kind());
                }
            }
        }
        for &i in &idxs {
            let c = &cases[i];
            let r = match &results[i] {
                Some(r) => r,
                None => continue,
            };
            if c.spec.route == 20 || c.spec.route == 21 {
                if r.history.len() != c.spec.widths.len() {
                    v.push(viol(i, "history did not complete", format!("{:?} {}", r.outcome.kind(), r.panic_msg), None));
                    continue;
                }
                for (k, (o, cc)) in r.history.iter().enumerate() {
                    let w = c.spec.widths[k];
                    if *cc != 0 {
                        v.push(viol(i, "a cloned render tree has filled estimate caches", format!("step {} width {} caches {}", k, w, cc), None));
                        break;
                    }
                    if let Some(exp) = by_width.get(&w) {
                        if &o.text() != exp || Some(&o.kind()) != kind_by_width.get(&w) {
                            v.push(viol(i, "render in a history differs from the one-shot rendering", format!("step {} width {} widths {:?}", k, w, c.spec.widths), None));
                            break;
                        }
                    }
                }
            } else if let Some(exp) = by_width.get(&c.spec.width) {
                if &r.outcome.text() != exp || Some(&r.outcome.kind()) != kind_by_width.get(&c.spec.width) {
                    v.push(viol(i, "routes disagree", format!("route {} vs route 0 at width {}", c.spec.route, c.spec.width), None));
                }
            }
        }
    }
    v
}
fn nontrivial_c10(c: &Case, r: &RunResult) -> bool {
    (c.spec.route == 20 || c.spec.route == 21) && r.history.iter().filter(|(o, _)| o.is_ok()).count() >= 2
}

// ======================================================================
// C11 width errors and the overflow option
// ======================================================================
fn prefix_depth(nodes: &[DNode], deco: u8) -> usize {
    // largest total prefix width of a nested block chain (built-in decorators)
    fn go(n: &DNode, deco: u8) -> usize {
        match n {
            DNode::El { html: true, name, kids, .. } => {
                let inner = kids.iter().map(|k| go(k, deco)).max().unwrap_or(0);
                let own = if deco == 3 {
                    if name == "dd" { 2 } else { 0 }
                } else {
                    match name.as_str() {
                        "ul" | "blockquote" | "dd" => 2,
                        "ol" => {
                            let start: i64 = n.attr("start").and_then(|s| s.parse().ok()).unwrap_or(1);
                            let items = kids.iter().filter(|k| k.is("li")).count() as i64;
                            let a = format!("{}. ", start).len();
                            let b = format!("{}. ", start.saturating_add(items).saturating_sub(1)).len();
                            a.max(b)
                        }
                        "h1" => 2,
                        "h2" => 3,
                        "h3" => 4,
                        "h4" => 5,
                        "h5" => 6,
                        "h6" => 7,
                        _ => 0,
                    }
                };
                own + inner
            }
            DNode::El { kids, .. } => kids.iter().map(|k| go(k, deco)).max().unwrap_or(0),
            _ => 0,
        }
    }
    nodes.iter().map(|n| go(n, deco)).max().unwrap_or(0)
}

fn gen_c11(tier: &str, rng: &mut Rng) -> Vec<Case> {
    let n = if tier == "thorough" { 60000 } else { 2500 };
    let mut cases = Vec::new();
    for gi in 0..n {
        let tables = rng.chance(1, 3);
        let (mut html, _) = gen_doc(rng, GenOpts { tables: if tables { 2 } else { 0 }, nested_tables: tables, odd_links: true, ..GenOpts::all() });
        let mut css_root = rng.chance(1, 40);
        // prefixed blocks without any content (their minimum width is 0)
        if rng.chance(1, 6) {
            let e = *rng.pick(&[
                "<ul><li></li></ul>",
                "<ol start=\"100\"><li></li><li></li></ol>",
                "<dl><dd></dd></dl>",
                "<blockquote><span id=\"x\"></span></blockquote>",
                "<blockquote><table><tr><td></td></tr></table></blockquote>",
                "<table><tr><td>a</td><td><ul><li></li></ul></td></tr></table>",
                "<h3></h3><ul><li><ol><li></li></ol></li></ul>",
            ]);
            css_root = rng.chance(1, 3);
            html = if rng.chance(1, 2) { e.to_string() } else { format!("{}{}", html, e) };
        }
        // prefixed blocks whose content has minimum width 0 but is not nothing (a lone combining
        // mark, or any text under min_wrap_width(0)), at widths around the prefix width, with a
        // maximum wrap width: the block's own width can be 0
        let mut zero_min = false;
        if rng.chance(1, 10) {
            let e = *rng.pick(&[
                "<blockquote>\u{301}</blockquote>",
                "<ul><li>\u{301}</li></ul>",
                "<ol><li>\u{301}\u{301}</li></ol>",
                "<p>a</p><blockquote><blockquote>\u{301}</blockquote></blockquote>",
                "<h3>\u{301}</h3>",
                "<blockquote>x</blockquote>",
                "<dl><dd>\u{301}</dd></dl>",
                "<ul><li>ab cd</li></ul>",
            ]);
            html = e.to_string();
            zero_min = true;
        }
        // link targets holding characters wider than the narrowest widths (the footnote list is
        // hard-wrapped too)
        let wide_href = rng.chance(1, 8);
        if wide_href {
            let e = *rng.pick(&[
                "<p>See <a href=\"http://example.jp/\u{4e16}\u{754c}\">this page</a> for more.</p>",
                "<a href=\"\u{4e2d}\">x</a>",
                "<ul><li><a href=\"/\u{3042}\">y</a></li></ul>",
                "<blockquote><a href=\"u\">\u{6f22}</a> <a href=\"\u{5b57}\u{5b57}\">z</a></blockquote>",
            ]);
            html = if rng.chance(1, 2) { e.to_string() } else { format!("{}{}", html, e) };
        }
        let mut bytes = html.into_bytes();
        if rng.chance(1, 6) {
            bytes = mutate(rng, &bytes);
        }
        let mut base = rand_cfg(rng, &[0, 1, 2, 3], false, true);
        if base.max_wrap == Some(0) {
            base.max_wrap = Some(1);
        }
        if zero_min {
            if rng.chance(2, 3) {
                base.max_wrap = Some(*rng.pick(&[1usize, 3, 10]));
            }
            if rng.chance(1, 2) {
                base.min_wrap = Some(0);
            }
        }
        if css_root {
            // the whole document (or its body) hidden by CSS: still Ok / TooNarrow, never another error
            base.user_css.push(rng.pick(&["html { display: none; }", "body { display: none; }", "* { display: none; }", "html, body { height: 0; overflow: hidden }"]).to_string());
        }
        if wide_href && rng.chance(1, 2) {
            base.footnotes = 1;
        }
        let mut ov = base.clone();
        ov.overflow = true;
        let w = if zero_min { rng.range(1, 5) } else if wide_href { rng.range(1, 3) } else if rng.chance(1, 2) { rng.range(1, 12) } else { rng.range(1, 60) };
        for (role, cfg, width) in [("zero", base.clone(), 0usize), ("base", base.clone(), w), ("ovf", ov.clone(), w), ("zero_ovf", ov.clone(), 0usize)] {
            let id = cases.len();
            let mut c = mk_case(id, 0, cfg, width, bytes.clone(), Some(0), g(role), if tables { "tables" } else { "table_free" });
            c.group = gi;
            cases.push(c);
        }
    }
    cases
}
fn check_c11(cases: &[Case], results: &[Option<RunResult>]) -> Vec<Violation> {
    let mut v = Vec::new();
    let mut i = 0;
    while i + 3 < cases.len() + 0 && i + 3 < cases.len() {
        let (zi, bi, oi, zoi) = (i, i + 1, i + 2, i + 3);
        i += 4;
        let (rz, rb, ro, rzo) = match (&results[zi], &results[bi], &results[oi], &results[zoi]) {
            (Some(a), Some(b), Some(c), Some(d)) => (a, b, c, d),
            _ => continue,
        };
        if !rb.regular {
            continue;
        }
        for (k, r) in [(zi, rz), (zoi, rzo)] {
            if r.outcome != Outcome::TooNarrow {
                v.push(viol(k, "width 0 did not yield TooNarrow", format!("{}", r.outcome.kind()), None));
            }
        }
        if !ro.outcome.is_ok() {
            v.push(viol(oi, "allow_width_overflow did not render", format!("{} {}", ro.outcome.kind(), ro.panic_msg), None));
            continue;
        }
        if rb.outcome.is_ok() && rb.outcome.text() != ro.outcome.text() {
            v.push(viol(oi, "allow_width_overflow changed a rendering that already succeeded", String::new(), None));
            continue;
        }
        if cases[oi].slice == "table_free" && !cases[oi].spec.cfg.no_link_wrap {
            let dom = dom_of(ro);
            if has_element(&dom, &["table"]) {
                continue;
            }
            let p = prefix_depth(&dom, cases[oi].spec.cfg.deco);
            let mww = cases[oi].spec.cfg.min_wrap.unwrap_or(3);
            let bound = cases[oi].spec.width.max(p + mww.max(5));
            if let Some(lines) = out_lines(&ro.outcome) {
                for l in &lines {
                    if str_width(l) > bound {
                        v.push(viol(oi, "overflowing line exceeds prefix depth + minimum content width", format!("bound {} line {:?}", bound, l), None));
                        break;
                    }
                }
            }
        }
    }
    v
}
fn nontrivial_c11(c: &Case, r: &RunResult) -> bool {
    c.meta.role() == "ovf" && r.outcome.is_ok()
}

/// C01 observable: the outcome kind only.
fn proj_kind(o: &Outcome) -> Outcome {
    match o {
        Outcome::Str(_) | Outcome::Lines(_) => Outcome::Str(String::new()),
        other => other.clone(),
    }
}
/// C02 observable: the display width of every line.
fn proj_widths(o: &Outcome) -> Outcome {
    match out_lines(o) {
        Some(ls) => Outcome::Str(ls.iter().map(|l| str_width(l).to_string()).collect::<Vec<_>>().join(",")),
        None => o.clone(),
    }
}

pub fn prop_def2(id: &str) -> Option<PropDef> {
    match id {
        "C01" => Some(PropDef { id: "C01", generate: gen_c01, check: check_c01, nontrivial: nontrivial_c01, project: proj_kind, deadline_ms: 60000, check_model: None }),
        "C02" => Some(PropDef { id: "C02", generate: gen_c02, check: check_c02, nontrivial: nontrivial_c02, project: proj_widths, deadline_ms: 20000, check_model: None }),
        "C10" => Some(PropDef { id: "C10", generate: gen_c10, check: check_c10, nontrivial: nontrivial_c10, project: ident, deadline_ms: 20000, check_model: None }),
        "C11" => Some(PropDef { id: "C11", generate: gen_c11, check: check_c11, nontrivial: nontrivial_c11, project: ident, deadline_ms: 20000, check_model: None }),
        other => crate::props3::prop_def3(other),
    }
}
