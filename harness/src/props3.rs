//! C03 C08 C09 C12 C13 C14 C15
use crate::core::*;
use crate::dom::*;
use crate::gen::*;
use crate::pool::*;
use crate::props::*;
use crate::props2::*;
use std::collections::{HashMap, HashSet};

fn dom_of(r: &RunResult) -> Vec<DNode> {
    decode_dom(&r.dom_wire).unwrap_or_default()
}
fn groups(cases: &[Case]) -> Vec<Vec<usize>> {
    let mut m: HashMap<usize, Vec<usize>> = HashMap::new();
    let mut order = Vec::new();
    for (i, c) in cases.iter().enumerate() {
        let e = m.entry(c.group).or_default();
        if e.is_empty() {
            order.push(c.group);
        }
        e.push(i);
    }
    order.into_iter().map(|g| m.remove(&g).unwrap()).collect()
}

// ======================================================================
// C13 independence from source whitespace layout
// ======================================================================
const BLOCKS: [&str; 16] = ["p", "div", "ul", "ol", "li", "blockquote", "h1", "h2", "h3", "h4", "h5", "h6", "dl", "dt", "dd", "table"];

fn is_block(h: &H) -> bool {
    matches!(h, H::El(n, _, _) if BLOCKS.contains(&n.as_str()))
}

fn rand_ws(rng: &mut Rng) -> String {
    let n = rng.range(1, 4);
    (0..n).map(|_| *rng.pick(&[' ', '\n', '\t', ' ', '\n'])).collect()
}

/// whitespace-run substitution inside text nodes
fn rw_ws_subst(rng: &mut Rng, v: &[H]) -> Vec<H> {
    v.iter()
        .map(|h| match h {
            H::Text(t) => {
                let mut o = String::new();
                let mut in_ws = false;
                for c in t.chars() {
                    if c == ' ' || c == '\n' || c == '\t' {
                        if !in_ws {
                            o.push_str(&rand_ws(rng));
                        }
                        in_ws = true;
                    } else {
                        o.push(c);
                        in_ws = false;
                    }
                }
                H::Text(o)
            }
            H::El(n, a, k) => H::El(n.clone(), a.clone(), rw_ws_subst(rng, k)),
            other => other.clone(),
        })
        .collect()
}
/// comments inserted next to whitespace inside text nodes
fn rw_comment(rng: &mut Rng, v: &[H]) -> Vec<H> {
    let mut out = Vec::new();
    for h in v {
        match h {
            H::Text(t) if !t.is_empty() && t.chars().all(char::is_whitespace) && rng.chance(1, 2) => {
                // white space between sibling elements: the comment goes next to it
                if rng.chance(1, 2) {
                    out.push(H::Comment(" c ".into()));
                    out.push(h.clone());
                } else {
                    out.push(h.clone());
                    out.push(H::Comment(" c ".into()));
                }
            }
            H::Text(t) => {
                let cs: Vec<char> = t.chars().collect();
                let pos: Vec<usize> = (1..cs.len()).filter(|&i| cs[i - 1].is_whitespace() || cs[i].is_whitespace()).collect();
                if !pos.is_empty() && rng.chance(1, 2) {
                    let p = *rng.pick(&pos);
                    out.push(H::Text(cs[..p].iter().collect()));
                    out.push(H::Comment(" c ".into()));
                    out.push(H::Text(cs[p..].iter().collect()));
                } else {
                    out.push(h.clone());
                }
            }
            H::El(n, a, k) => out.push(H::El(n.clone(), a.clone(), rw_comment(rng, k))),
            other => out.push(other.clone()),
        }
    }
    out
}
/// wrap runs of inline siblings in <span>
fn rw_span(rng: &mut Rng, v: &[H]) -> Vec<H> {
    let mut out: Vec<H> = Vec::new();
    let mut i = 0;
    while i < v.len() {
        if !is_block(&v[i]) && rng.chance(1, 3) {
            let mut j = i;
            let len = rng.range(1, 3);
            while j < v.len() && j < i + len && !is_block(&v[j]) {
                j += 1;
            }
            let run: Vec<H> = v[i..j].iter().map(|h| rw_span_one(rng, h)).collect();
            out.push(H::El("span".into(), vec![], run));
            i = j;
        } else {
            out.push(rw_span_one(rng, &v[i]));
            i += 1;
        }
    }
    out
}
fn rw_span_one(rng: &mut Rng, h: &H) -> H {
    match h {
        H::El(n, a, k) => H::El(n.clone(), a.clone(), rw_span(rng, k)),
        other => other.clone(),
    }
}
/// indentation / newlines between block tags
fn rw_indent(rng: &mut Rng, v: &[H]) -> Vec<H> {
    let mut out = Vec::new();
    let has_block = v.iter().any(is_block);
    let all_block_or_ws = v.iter().all(|h| is_block(h) || matches!(h, H::Text(t) if t.trim().is_empty()) || matches!(h, H::Comment(_)));
    for h in v.iter() {
        if has_block && all_block_or_ws && is_block(h) && rng.chance(1, 2) {
            out.push(H::Text(rand_ws(rng)));
        }
        match h {
            H::El(n, a, k) => out.push(H::El(n.clone(), a.clone(), rw_indent(rng, k))),
            other => out.push(other.clone()),
        }
    }
    if has_block && all_block_or_ws && rng.chance(1, 2) {
        out.push(H::Text(rand_ws(rng)));
    }
    out
}

fn gen_c13(tier: &str, rng: &mut Rng) -> Vec<Case> {
    let n = if tier == "thorough" { 80000 } else { 3000 };
    let mut cases = Vec::new();
    for gi in 0..n {
        let o = GenOpts { tables: 0, pre: false, links: true, odd_links: true, ids: false, imgs: true, sup: true, strike: true, br: true, dl: true, ws_noise: true, ..Default::default() };
        let (html, ast) = gen_doc(rng, o);
        let kind = rng.below(4);
        let ast2 = match kind {
            0 => rw_ws_subst(rng, &ast),
            1 => rw_comment(rng, &ast),
            2 => rw_span(rng, &ast),
            _ => rw_indent(rng, &ast),
        };
        let slice = ["ws_subst", "comment", "span_wrap", "indent"][kind];
        let html2 = to_html(&ast2);
        let mut cfg = rand_cfg(rng, &[0, 2], false, true);
        // a style sheet with positional selectors: comments and white space between siblings are
        // not elements and must not shift what :nth-child / child combinators select (span wrapping
        // adds elements, so it is left out here)
        if kind <= 1 && rng.chance(1, 3) {
            cfg.user_css.push(
                rng.pick(&[
                    "li:nth-child(2) { display: none; } p:nth-child(even) { color: #ff0000; }",
                    "li:nth-child(odd) { color: #00ff00; } div > p { background-color: #0000ff; }",
                    ":nth-child(3) { display: none; }",
                    "p:nth-child(1) { display: none; } dd:nth-child(2n) { color: #123456; }",
                    "ul > li:nth-child(-n+2) { color: #ff00ff; } blockquote p { display: none; }",
                ])
                .to_string(),
            );
        }
        let w = if rng.chance(1, 3) { rng.range(1, 12) } else { rng.range(1, 100) };
        let route = if cfg.deco == 2 { 1 } else { 0 };
        for (role, h) in [("base", html), ("variant", html2)] {
            let id = cases.len();
            let mut c = mk_case(id, route, cfg.clone(), w, h.into_bytes(), Some(route as u64), g(role), slice);
            c.group = gi;
            cases.push(c);
        }
    }
    gen_c13_short(tier, rng, &mut cases);
    cases
}
/// short texts in prefixed blocks at the narrowest widths: the kind of white space between two
/// short words must not decide whether the block fits (the estimate counts a run as one column)
fn gen_c13_short(tier: &str, rng: &mut Rng, cases: &mut Vec<Case>) {
    let n = if tier == "thorough" { 20000 } else { 1500 };
    for gi in 0..n {
        let words: Vec<&str> = (0..rng.range(2, 3)).map(|_| *rng.pick(&["a", "b", "xy", "c", "中", "de"])).collect();
        let mk = |seps: &[&str]| -> String {
            let mut t = String::new();
            for (k, w) in words.iter().enumerate() {
                if k > 0 {
                    t.push_str(seps[(k - 1) % seps.len()]);
                }
                t.push_str(w);
            }
            t
        };
        let wrap = rng.below(6);
        let doc = |t: &str| -> String {
            match wrap {
                0 => format!("<ul><li>{}</li></ul>", t),
                1 => format!("<blockquote>{}</blockquote>", t),
                2 => format!("<h1>{}</h1>", t),
                3 => format!("<dl><dt>t</dt><dd>{}</dd></dl>", t),
                4 => format!("<ol><li>{}</li></ol>", t),
                _ => format!("<ul><li><ul><li>{}</li></ul></li></ul>", t),
            }
        };
        let base = doc(&mk(&[" "]));
        let var_seps: Vec<&str> = vec![*rng.pick(&["\n", "\t", "\n\n", "\t\t", "\n\t", "  ", " \n ", "\n    "]), *rng.pick(&["\n", "\t", " "])];
        let variant = doc(&mk(&var_seps));
        let mut cfg = Cfg { deco: *rng.pick(&[0u8, 2]), ..Default::default() };
        cfg.overflow = rng.chance(1, 3);
        let w = rng.range(1, 8);
        let route = if cfg.deco == 2 { 1 } else { 0 };
        for (role, h) in [("base", base), ("variant", variant)] {
            let id = cases.len();
            let mut c = mk_case(id, route, cfg.clone(), w, h.into_bytes(), Some(route as u64), g(role), "ws_subst");
            c.group = 7_000_000 + gi;
            cases.push(c);
        }
    }
    // lists (ordered ones with many items or a start number, too) inside a quote, an item or a
    // dd, written compactly and indented: white space between the block tags is not content
    let nl = if tier == "thorough" { 12000 } else { 1200 };
    for gi in 0..nl {
        let nitems = *rng.pick(&[0usize, 1, 2, 3, 5, 6, 7, 8, 9, 10, 12]);
        let start = if rng.chance(1, 3) { Some(*rng.pick(&[7i64, 8, 9, 97, 98, 99, 0, -3])) } else { None };
        let ordered = rng.chance(3, 4);
        let items: Vec<String> = (0..nitems).map(|k| format!("<li>{}</li>", ["ab c", "x", "de", "f g h"][(k + gi) % 4])).collect();
        let (lo, lc) = if ordered { (match start { Some(s) => format!("<ol start=\"{}\">", s), None => "<ol>".to_string() }, "</ol>") } else { ("<ul>".to_string(), "</ul>") };
        let (oo, oc) = *rng.pick(&[("<blockquote>", "</blockquote>"), ("<ul><li>", "</li></ul>"), ("<ol><li>", "</li></ol>"), ("<dl><dd>", "</dd></dl>"), ("<div>", "</div>"), ("<blockquote><blockquote>", "</blockquote></blockquote>")]);
        let ind = *rng.pick(&["\n", "\n  ", "\n\t", " ", "\r\n    "]);
        let (pre_t, post_t) = if nitems == 0 { ("a", "b") } else { ("", "") };
        let base = format!("{}{}{}{}{}{}{}", pre_t, oo, lo, items.concat(), lc, oc, post_t);
        let variant = if nitems == 0 {
            format!("{}{}{}{}{}{}{}", pre_t, oo, lo, ind, lc, oc, post_t)
        } else {
            format!("{}{}{}{}{}{}{}{}", oo, ind, lo, items.iter().map(|i| format!("{}{}", ind, i)).collect::<String>(), ind, lc, ind, oc)
        };
        let mut cfg = Cfg { deco: *rng.pick(&[0u8, 2]), ..Default::default() };
        cfg.overflow = rng.chance(1, 2);
        let w = rng.range(1, 14);
        let route = if cfg.deco == 2 { 1 } else { 0 };
        for (role, h) in [("base", base), ("variant", variant)] {
            let id = cases.len();
            let mut c = mk_case(id, route, cfg.clone(), w, h.into_bytes(), Some(route as u64), g(role), "indented_lists");
            c.group = 7_500_000 + gi;
            cases.push(c);
        }
    }
}
fn check_c13(cases: &[Case], results: &[Option<RunResult>]) -> Vec<Violation> {
    let mut v = Vec::new();
    for grp in groups(cases) {
        if grp.len() != 2 {
            continue;
        }
        let (a, b) = (grp[0], grp[1]);
        if let (Some(ra), Some(rb)) = (&results[a], &results[b]) {
            if ra.outcome != rb.outcome {
                // one side renders, the other is too narrow (nothing worse)
                let kinds_differ = (ra.outcome.is_ok() && matches!(rb.outcome, Outcome::TooNarrow)) || (rb.outcome.is_ok() && matches!(ra.outcome, Outcome::TooNarrow));
                let doma = dom_of(ra);
                let known = if kinds_differ && (cases[b].slice == "comment" || cases[b].slice == "span_wrap") {
                    Some("short_split_min_width")
                } else if cases[b].slice == "span_wrap" && {
                    // a <sup> whose whole text is digits: the superscript-digit special case only
                    // sees a sole text child
                    let mut digit_sup = false;
                    walk(&doma, &mut |n, _| {
                        if n.is("sup") {
                            let t: String = visible_chars(std::slice::from_ref(n)).into_iter().collect();
                            if !t.is_empty() && t.chars().all(|c| c.is_ascii_digit()) {
                                digit_sup = true;
                            }
                        }
                    });
                    digit_sup
                } {
                    Some("sup_digits_wrapped")
                } else if cases[b].slice == "span_wrap" && {
                    // a link without visible content: whether it still counts as a link is decided by a
                    // test that looks one level deep, so a span around its white space changes it (the
                    // defect recorded for C08 under the same key)
                    let mut empty_link = false;
                    for r_ in [ra, rb] {
                        walk(&dom_of(r_), &mut |n, _| {
                            if n.is("a") && n.attr("href").is_some() && visible_chars(std::slice::from_ref(n)).is_empty() {
                                empty_link = true;
                            }
                        });
                    }
                    empty_link
                } {
                    Some("empty_link_with_markup")
                } else if {
                    // a list or other block container without any visible content: with white space
                    // between its tags it is still a block (a line break, a blank line, a prefix that
                    // may not fit), without it is nothing (emptiness is judged before the white space
                    // is dropped)
                    let mut empty_block = false;
                    for r_ in [ra, rb] {
                        walk(&dom_of(r_), &mut |n, _| {
                            if (n.is("ul") || n.is("ol") || n.is("dl") || n.is("blockquote") || n.is("div") || n.is("p")) && visible_chars(std::slice::from_ref(n)).is_empty() && !has_element(std::slice::from_ref(n), &["img", "br", "hr", "table"]) {
                                empty_block = true;
                            }
                        });
                    }
                    empty_block
                } {
                    Some("empty_list_with_whitespace")
                } else {
                    None
                };
                v.push(viol(b, "output depends on source whitespace layout", format!("{} rewrite; base {} variant {}", cases[b].slice, ra.outcome.kind(), rb.outcome.kind()), known));
            }
        }
    }
    v
}
fn nontrivial_c13(c: &Case, r: &RunResult) -> bool {
    c.meta.role() == "variant" && r.outcome.is_ok()
}

// ======================================================================
// C15 options orthogonal
// ======================================================================
fn gen_c15(tier: &str, rng: &mut Rng) -> Vec<Case> {
    let n = if tier == "thorough" { 60000 } else { 3000 };
    let mut cases = Vec::new();
    for gi in 0..n {
        let opt = rng.below(9);
        let (mut html, _) = gen_doc(rng, GenOpts { odd_links: opt == 7, ..GenOpts::all() });
        // strikeout (and other inline markup) around whole blocks, pretty-printed
        if rng.chance(1, 5) {
            let name = *rng.pick(&["del", "s", "em", "code"]);
            let close = name.split(' ').next().unwrap();
            let sep = *rng.pick(&[" ", "\n", "\n  ", ""]);
            html = format!("<{}>{}{}{}<p>tail</p>{}</{}>", name, sep, html, sep, sep, close);
        }
        let bytes = html.into_bytes();
        let mut base = Cfg { deco: *rng.pick(&[0u8, 1, 2, 3]), ..Default::default() };
        if rng.chance(1, 4) {
            base.footnotes = 1;
        }
        let w = if rng.chance(1, 4) { rng.range(1, 12) } else { rng.range(1, 100) };
        if opt == 7 && rng.chance(2, 3) {
            base.footnotes = 1;
        }
        if (opt == 2 || opt == 3) && rng.chance(1, 3) {
            base.overflow = true;
        }
        let mut var = base.clone();
        let slice: &'static str = match opt {
            0 => {
                var.max_wrap = Some(w + rng.below(30));
                "max_wrap_ge_width"
            }
            1 => {
                var.max_wrap = Some(rng.range(1, w));
                "max_wrap_lt_width"
            }
            2 => {
                var.pad = true;
                "pad"
            }
            3 => {
                var.strike = 2;
                "strike_off"
            }
            4 => {
                var.no_borders = true;
                "no_borders"
            }
            5 => {
                var.raw = 1;
                "raw"
            }
            6 => {
                base.footnotes = 1;
                var.footnotes = 2;
                "footnotes_off"
            }
            7 => {
                var.no_link_wrap = true;
                "no_link_wrap"
            }
            _ => {
                var.min_wrap = Some(rng.range(1, 8));
                "min_wrap"
            }
        };
        for (role, cfg) in [("base", base), ("variant", var)] {
            let id = cases.len();
            let mut c = mk_case(id, 0, cfg, w, bytes.clone(), Some(0), g(role), slice);
            c.group = gi;
            cases.push(c);
        }
    }
    // struck text under allow_width_overflow at widths below a character's width: the strike mark
    // stays with its character
    let ns = if tier == "thorough" { 10000 } else { 600 };
    for gi in 0..ns {
        let mut body = String::new();
        for _ in 0..rng.range(1, 4) {
            match rng.below(5) {
                0 => body.push(*rng.pick(&crate::gen::WIDE)),
                1 => body.push_str("a"),
                2 => body.push(' '),
                3 => {
                    body.push(*rng.pick(&crate::gen::WIDE));
                    body.push('\u{301}');
                }
                _ => body.push_str("xy"),
            }
        }
        let html = match rng.below(4) {
            0 => format!("<s>{}</s>", body),
            1 => format!("<p>a <del>{}</del> b</p>", body),
            2 => format!("<ul><li><s>{}</s></li></ul>", body),
            _ => format!("<p>{}</p>", body),
        };
        let base = Cfg { deco: *rng.pick(&[0u8, 1, 2, 3]), overflow: true, ..Default::default() };
        let mut var = base.clone();
        var.strike = 2;
        let w = rng.range(1, 3);
        for (role, cfg) in [("base", base), ("variant", var)] {
            let id = cases.len();
            let mut c = mk_case(id, 0, cfg, w, html.clone().into_bytes(), Some(0), g(role), "strike_off");
            c.group = 9_000_000 + gi;
            cases.push(c);
        }
    }
    // white space other than ASCII at the end (or in the middle) of struck text: it is white space
    // to the wrapper with the marks as without them
    let nq = if tier == "thorough" { 10000 } else { 800 };
    for gi in 0..nq {
        let sp = *rng.pick(&["\u{a0}", "\u{2003}", "\u{3000}", "\u{a0}\u{a0}", " \u{a0}", "\u{a0} ", "\u{2009}"]);
        let word = *rng.pick(&["10", "abc", "x", "\u{4e16}"]);
        let lead = *rng.pick(&["price", "abcdefgh", "", "ab cd"]);
        let inner = match rng.below(3) {
            0 => format!("{}{}", word, sp),
            1 => format!("{}{}{}", word, sp, word),
            _ => format!("{}{}", sp, word),
        };
        let tag = *rng.pick(&["del", "s"]);
        let html = match rng.below(5) {
            0 | 1 => format!("<p>{} <{}>{}</{}></p><p>next</p>", lead, tag, inner, tag),
            2 => format!("<ul><li>{} <{}>{}</{}></li><li>b</li></ul>", lead, tag, inner, tag),
            3 => format!("<table><tr><td>{} <{}>{}</{}></td><td>c</td></tr></table>", lead, tag, inner, tag),
            _ => format!("<blockquote>{} <{}>{}</{}> end</blockquote>", lead, tag, inner, tag),
        };
        let base = Cfg { deco: *rng.pick(&[0u8, 1, 2, 3]), overflow: rng.chance(1, 4), ..Default::default() };
        let mut var = base.clone();
        var.strike = 2;
        let w = rng.range(3, 16);
        for (role, cfg) in [("base", base), ("variant", var)] {
            let id = cases.len();
            let mut c = mk_case(id, 0, cfg, w, html.clone().into_bytes(), Some(0), g(role), "strike_off");
            c.group = 9_500_000 + gi;
            cases.push(c);
        }
    }
    cases
}
fn is_box_char(c: char) -> bool {
    matches!(c, '─' | '│' | '┬' | '┴' | '┼')
}
fn nonspace(s: &str) -> String {
    s.chars().filter(|c| !c.is_whitespace()).collect()
}
/// delete the trailing footnote list and the "[k]" references (on the non-space stream,
/// strike marks ignored); None if the expected list is not the suffix of the output
fn strip_footnotes(text: &str, links: &[String]) -> Option<String> {
    let mut t: String = nonspace(text).chars().filter(|c| *c != '\u{336}').collect();
    let mut suffix = String::new();
    for (k, h) in links.iter().enumerate() {
        suffix.push_str(&format!("[{}]:{}", k + 1, nonspace(h)));
    }
    if !t.ends_with(&suffix) {
        return None;
    }
    let keep = t.len() - suffix.len();
    t.truncate(keep);
    let mut from = 0usize;
    for k in 1..=links.len() {
        let m = format!("[{}]", k);
        if let Some(p) = t[from..].find(&m) {
            t.replace_range(from + p..from + p + m.len(), "");
            from += p;
        } else {
            return None;
        }
    }
    Some(t)
}
fn count_links(dom: &[DNode]) -> usize {
    let mut n = 0;
    walk(dom, &mut |x, _| {
        if x.is("a") && x.attr("href").is_some() {
            n += 1;
        }
    });
    n
}
fn check_c15(cases: &[Case], results: &[Option<RunResult>]) -> Vec<Violation> {
    let mut v = Vec::new();
    for grp in groups(cases) {
        if grp.len() != 2 {
            continue;
        }
        let (a, b) = (grp[0], grp[1]);
        let (ra, rb) = match (&results[a], &results[b]) {
            (Some(x), Some(y)) => (x, y),
            _ => continue,
        };
        if !ra.regular {
            continue;
        }
        let slice = cases[b].slice;
        let dom = dom_of(ra);
        let (ta, tb) = (ra.outcome.text(), rb.outcome.text());
        let same = ra.outcome == rb.outcome;
        match slice {
            "max_wrap_ge_width" => {
                if !same {
                    v.push(viol(b, "max_wrap_width >= width changed the output", String::new(), None));
                }
            }
            "max_wrap_lt_width" => {
                // without tables or prefixed blocks every line obeys m
                if let (Some(tb), Some(m)) = (&tb, cases[b].spec.cfg.max_wrap) {
                    if !has_element(&dom, &["table", "ul", "ol", "blockquote", "dd", "h1", "h2", "h3", "h4", "h5", "h6", "a", "pre"]) {
                        for l in tb.split('\n') {
                            if str_width(l) > m {
                                v.push(viol(b, "line exceeds max_wrap_width in a prefix-free document", format!("m {} line {:?}", m, l), None));
                                break;
                            }
                        }
                    }
                }
            }
            "pad" => match (&ta, &tb) {
                (Some(x), Some(y)) => {
                    let rs = |s: &str| s.split('\n').map(|l| l.trim_end_matches(' ').to_string()).collect::<Vec<_>>();
                    if rs(x) != rs(y) {
                        let mut pre_style = false;
                        walk(&dom, &mut |n, _| {
                            if n.attr("style").map(|st| st.contains("white-space")).unwrap_or(false) {
                                pre_style = true;
                            }
                        });
                        let known = if cases[b].spec.cfg.overflow && has_element(&dom, &["table"]) {
                            Some("pad_overflowing_table_cell")
                        } else if has_element(&dom, &["pre"]) || pre_style {
                            Some("pad_blank_pre_line")
                        } else {
                            None
                        };
                        v.push(viol(b, "pad_block_width changed more than trailing spaces", String::new(), known));
                    }
                }
                _ => {
                    if ra.outcome.kind() != rb.outcome.kind() {
                        v.push(viol(b, "pad_block_width changed the outcome", String::new(), None));
                    }
                }
            },
            "strike_off" => match (&ta, &tb) {
                (Some(x), Some(y)) => {
                    let del: String = x.chars().filter(|c| *c != '\u{336}').collect();
                    if &del != y {
                        v.push(viol(b, "unicode_strikeout(false) is not the output with U+0336 deleted", format!("{:?} vs {:?}", del, y), None));
                    }
                }
                _ => {
                    if ra.outcome.kind() != rb.outcome.kind() {
                        v.push(viol(b, "unicode_strikeout changed the outcome", String::new(), None));
                    }
                }
            },
            "no_borders" | "raw" => {
                if let Some(y) = &tb {
                    let vis: HashSet<char> = visible_chars(&dom).into_iter().collect();
                    if y.chars().any(|c| is_box_char(c) && !vis.contains(&c)) {
                        v.push(viol(b, "box-drawing character with borders disabled", String::new(), None));
                    }
                }
                if !has_element(&dom, &["table"]) && !same {
                    v.push(viol(b, "table option changed a table-free document", String::new(), None));
                }
            }
            "footnotes_off" => {
                if let (Some(x), Some(y)) = (&ta, &tb) {
                    let (links, nested) = rendered_links(&dom);
                    if count_links(&dom) == 0 {
                        if !same {
                            v.push(viol(b, "link_footnotes changed a link-free document", String::new(), None));
                        }
                    } else if !nested && !has_element(&dom, &["table", "ul", "ol", "blockquote", "dd", "dl", "h1", "h2", "h3", "h4", "h5", "h6", "pre"]) {
                        let ny: String = nonspace(y).chars().filter(|c| *c != '\u{336}').collect();
                        match strip_footnotes(x, &links) {
                            Some(sx) if sx == ny => {}
                            other => {
                                v.push(viol(b, "link_footnotes(false) removed or kept more than references and the list", format!("{:?} vs {:?}", other.map(|s| s.chars().take(80).collect::<String>()), ny.chars().take(80).collect::<String>()), None));
                            }
                        }
                    }
                }
            }
            "no_link_wrap" => {
                if count_links(&dom) == 0 && !same {
                    v.push(viol(b, "no_link_wrapping changed a link-free document", String::new(), None));
                }
                // the option only stops the hard wrapping of the footnote list: with the line breaks
                // taken out, both outputs are the same text
                if let (Some(x), Some(y)) = (&ta, &tb) {
                    let (jx, jy) = (x.replace('\n', ""), y.replace('\n', ""));
                    if jx != jy {
                        v.push(viol(b, "no_link_wrapping changed more than the line breaks of the footnote list", format!("{:?} vs {:?}", jx.chars().rev().take(120).collect::<String>().chars().rev().collect::<String>(), jy.chars().rev().take(120).collect::<String>().chars().rev().collect::<String>()), None));
                    } else if x.split('\n').count() < y.split('\n').count() {
                        v.push(viol(b, "no_link_wrapping produced more lines than wrapping", String::new(), None));
                    }
                } else if ra.outcome.kind() != rb.outcome.kind() {
                    v.push(viol(b, "no_link_wrapping changed the outcome", String::new(), None));
                }
            }
            _ => {}
        }
    }
    v
}
fn nontrivial_c15(c: &Case, r: &RunResult) -> bool {
    c.meta.role() == "variant" && r.outcome.is_ok()
}

// ======================================================================
// C08 link footnotes
// ======================================================================
fn gen_c08(tier: &str, rng: &mut Rng) -> Vec<Case> {
    let n = if tier == "thorough" { 80000 } else { 4000 };
    let mut cases = Vec::new();
    for _ in 0..n {
        let tables = rng.chance(1, 3);
        let o = GenOpts { tables: if tables { 1 } else { 0 }, nested_tables: tables, links: true, odd_links: true, ids: false, imgs: false, sup: true, strike: true, br: true, dl: true, pre: false, max_blocks: 6, ..Default::default() };
        let (html, _) = gen_doc(rng, o);
        let mut cfg = Cfg { deco: *rng.pick(&[0u8, 1, 2, 3]), ..Default::default() };
        cfg.footnotes = *rng.pick(&[1u8, 1, 2, 0]);
        if rng.chance(1, 8) {
            cfg.raw = 1;
        }
        let w = rng.range(10, 120);
        let id = cases.len();
        cases.push(mk_case(id, 0, cfg, w, html.into_bytes(), Some(0), g(""), if tables { "tables" } else { "flow" }));
    }
    // links in children of a <ul> that are not items (a list nested directly in a list, a
    // paragraph or a bare link between the items): rendered like any other content
    let nl = if tier == "thorough" { 8000 } else { 600 };
    for k in 0..nl {
        let mut n = 0;
        let mut link = |rng: &mut Rng| -> String {
            n += 1;
            format!("<a href=\"http://l{}.example/{}\">w{}x{}</a>", n, "p".repeat(rng.below(6)), k, n)
        };
        let mut html = format!("<p>See {}.</p><ul>", link(rng));
        for _ in 0..rng.range(1, 4) {
            match rng.below(6) {
                0 => html.push_str(&format!("<ul><li>{} here</li></ul>", link(rng))),
                1 => html.push_str(&format!("<p>{}</p>", link(rng))),
                2 => html.push_str(&link(rng)),
                3 => html.push_str(&format!("<div>in {}</div>", link(rng))),
                4 => html.push_str("<li>plain</li>"),
                _ => html.push_str(&format!("<li>{}</li>", link(rng))),
            }
            if rng.chance(1, 3) {
                html.push('\n');
            }
        }
        html.push_str(&format!("</ul><p>And {}.</p>", link(rng)));
        let mut cfg = Cfg { deco: *rng.pick(&[0u8, 1, 2, 3]), ..Default::default() };
        cfg.footnotes = 1;
        let id = cases.len();
        cases.push(mk_case(id, 0, cfg, rng.range(20, 100), html.into_bytes(), Some(0), g(""), "loose_in_ul"));
    }
    cases
}
/// links in document order that are rendered: <a href> with content that is not shallow-empty
fn rendered_links(dom: &[DNode]) -> (Vec<String>, bool) {
    fn has_text(n: &DNode) -> bool {
        match n {
            DNode::Text(t) => !t.trim().is_empty(),
            DNode::El { html: true, name, .. } if name == "img" => n.attr("alt").map(|a| !a.is_empty()).unwrap_or(false) && n.attr("src").map(|a| !a.is_empty()).unwrap_or(false),
            DNode::El { html: true, name, .. } if ["script", "style", "head"].contains(&name.as_str()) => false,
            DNode::El { kids, .. } => kids.iter().any(has_text),
            _ => false,
        }
    }
    let mut out = Vec::new();
    let mut nested = false;
    walk(dom, &mut |n, anc| {
        if n.is("a") {
            if let Some(h) = n.attr("href") {
                if has_text(n) {
                    out.push(h.to_string());
                    if anc.iter().any(|a| a.is("a") && a.attr("href").is_some()) {
                        nested = true;
                    }
                }
            }
        }
    });
    (out, nested)
}
fn check_c08(cases: &[Case], results: &[Option<RunResult>]) -> Vec<Violation> {
    let mut v = Vec::new();
    for (i, c) in cases.iter().enumerate() {
        let r = match &results[i] {
            Some(r) => r,
            None => continue,
        };
        let text = match r.outcome.text() {
            Some(t) => t,
            None => continue,
        };
        if !r.regular {
            continue;
        }
        let dom = dom_of(r);
        let (links, nested) = rendered_links(&dom);
        let on = match c.spec.cfg.footnotes {
            1 => true,
            2 => false,
            _ => c.spec.cfg.deco == 0,
        };
        let text: String = text.chars().filter(|ch| *ch != '\u{336}').collect();
        let lines: Vec<&str> = text.split('\n').collect();
        let fstart = lines.iter().position(|l| l.starts_with("[1]: "));
        if !on {
            if fstart.is_some() && !links.is_empty() {
                v.push(viol(i, "footnote list although link footnotes are disabled", String::new(), None));
            }
            continue;
        }
        // a link whose content has no text but is not "shallow empty" (markup around nothing or
        // around whitespace) is still rendered as a link: recorded finding
        let mut empty_markup = false;
        walk(&dom, &mut |n, _| {
            if n.is("a") && n.attr("href").is_some() {
                fn has_text2(n: &DNode) -> bool {
                    match n {
                        DNode::Text(t) => !t.trim().is_empty(),
                        DNode::El { html: true, name, .. } if name == "img" => true,
                        DNode::El { kids, .. } => kids.iter().any(has_text2),
                        _ => false,
                    }
                }
                if !has_text2(n) && n.kids().iter().any(|k| matches!(k, DNode::El { .. })) {
                    empty_markup = true;
                }
            }
        });
        let known = if nested { Some("nested_link_numbering") } else if empty_markup { Some("empty_link_with_markup") } else { None };
        if links.is_empty() {
            if fstart.is_some() {
                v.push(viol(i, "footnote list without links", String::new(), known));
            }
            continue;
        }
        let p = match fstart {
            Some(p) => p,
            None => {
                v.push(viol(i, "missing footnote list", String::new(), known));
                continue;
            }
        };
        // body references, in order
        // a reference can be hard-wrapped inside a prefixed block: drop the prefix columns
        let has_table = has_element(&dom, &["table"]) && c.spec.cfg.raw == 0;
        let body_lines: Vec<String> = lines[..p]
            .iter()
            .map(|l| l.trim_start_matches(|ch: char| ch == ' ' || ch == '>' || ch == '#' || ch == '*').to_string())
            .collect();
        let body = nonspace(&body_lines.join("\n"));
        let mut refs = Vec::new();
        let bs: Vec<char> = body.chars().collect();
        let mut k = 0;
        while k < bs.len() {
            if bs[k] == '[' {
                let mut j = k + 1;
                let mut num = String::new();
                while j < bs.len() && bs[j].is_ascii_digit() {
                    num.push(bs[j]);
                    j += 1;
                }
                // (numbers from 1000 up are link texts of the generator - a footnote-style link inside
                // <sup> - never references: documents have far fewer links)
                if !num.is_empty() && j < bs.len() && bs[j] == ']' && num.len() < 4 {
                    refs.push(num.parse::<usize>().unwrap_or(0));
                    k = j;
                }
            }
            k += 1;
        }
        let expect: Vec<usize> = (1..=links.len()).collect();
        let bad = if has_table {
            // side-by-side cells interleave (and may split) their lines: the references
            // found must be distinct members of 1..n
            let mut r2 = refs.clone();
            r2.sort();
            r2.dedup();
            r2.len() != refs.len() || refs.iter().any(|k| *k < 1 || *k > links.len())
        } else {
            refs != expect
        };
        if bad {
            v.push(viol(i, "references are not 1..n in document order", format!("refs {:?} for {} links", refs, links.len()), known));
            continue;
        }
        // the list is one block: no blank line inside it (only the text's final newline follows)
        if let Some(k) = lines[p..].iter().position(|l| l.is_empty()) {
            if p + k + 1 != lines.len() {
                v.push(viol(i, "the footnote list is not one block at the end of the output", format!("blank line {} lines into the list: {:?}", k, &lines[p..]), known));
                continue;
            }
        }
        // the list: unwrap hard-wrapped lines
        let list: String = lines[p..].concat();
        let mut exp = String::new();
        for (k, h) in links.iter().enumerate() {
            // a line feed inside a target is shown as a space
            exp.push_str(&format!("[{}]: {}", k + 1, h.replace('\n', " ")));
        }
        if list != exp {
            v.push(viol(i, "footnote list does not match the link targets", format!("{:?} vs {:?}", list.chars().take(120).collect::<String>(), exp.chars().take(120).collect::<String>()), known));
        }
    }
    v
}
fn nontrivial_c08(_c: &Case, r: &RunResult) -> bool {
    r.outcome.text().map(|t| t.contains("[2]: ")).unwrap_or(false)
}

// ======================================================================
// C14 fragment markers
// ======================================================================
fn gen_c14(tier: &str, rng: &mut Rng) -> Vec<Case> {
    let n = if tier == "thorough" { 80000 } else { 4000 };
    let mut cases = Vec::new();
    for _ in 0..n {
        let tables = rng.chance(1, 4);
        let o = GenOpts { tables: if tables { 1 } else { 0 }, nested_tables: false, links: true, ids: true, pre: true, dl: true, br: true, imgs: false, sup: false, ..Default::default() };
        let (html, ast) = gen_doc(rng, o);
        let mut cfg = Cfg { deco: *rng.pick(&[3u8, 3, 2, 1]), ..Default::default() };
        if tables && rng.chance(1, 3) {
            // raw mode: rows are stacked, so the whole output keeps document order
            cfg.raw = 1;
        }
        let w = if rng.chance(1, 3) { rng.range(1, 10) } else { rng.range(1, 100) };
        // markers never change the text: the same document without ids / names, under the same
        // options (a maximum wrap width, padding, ... included), renders the same characters
        if rng.chance(1, 3) {
            fn strip_ids(v: &[H]) -> Vec<H> {
                v.iter()
                    .map(|h| match h {
                        H::El(n, a, k) => {
                            let mut at = a.clone();
                            at.retain(|(key, _)| key != "id" && !(n == "a" && key == "name"));
                            H::El(n.clone(), at, strip_ids(k))
                        }
                        o => o.clone(),
                    })
                    .collect()
            }
            let mut c2 = cfg.clone();
            if rng.chance(1, 2) {
                c2.max_wrap = Some(rng.range(1, 40));
            }
            if rng.chance(1, 4) {
                c2.pad = true;
            }
            for (role, h) in [("with_ids", html.clone()), ("without_ids", to_html(&strip_ids(&ast)))] {
                let id = cases.len();
                let mut c = mk_case(id, 1, c2.clone(), w, h.into_bytes(), Some(1), g(role), "ids_vs_none");
                c.group = 6_000_000 + id / 2 * 2 + 1_000_000 * 0;
                cases.push(c);
            }
            let k = cases.len();
            let gnum = 6_000_000 + k;
            cases[k - 1].group = gnum;
            cases[k - 2].group = gnum;
        }
        let id = cases.len();
        cases.push(mk_case(id, 1, cfg, w, html.into_bytes(), Some(1), g(""), if tables { "tables" } else { "flow" }));
    }
    // an element with an id that begins with forced line breaks and then a block, first in its
    // container or not: with and without the id
    let nb = if tier == "thorough" { 6000 } else { 600 };
    for _ in 0..nb {
        let (o1, o2) = *rng.pick(&[("<div ID>", "</div>"), ("<blockquote ID>", "</blockquote>"), ("<ul><li ID>", "</li></ul>"), ("<ol><li ID>", "</li></ol>"), ("<dl><dd ID>", "</dd></dl>"), ("<table><tr><td ID>", "</td><td>zz</td></tr></table>"), ("<div><span ID>", "</span></div>"), ("<p ID>", "</p>")]);
        let (b1, b2) = *rng.pick(&[("<p>", "</p>"), ("<h2>", "</h2>"), ("<pre>", "</pre>"), ("<blockquote>", "</blockquote>"), ("<ul><li>", "</li></ul>"), ("<div>", "</div>"), ("<dl><dt>", "</dt></dl>"), ("", "")]);
        let brs = "<br>".repeat(rng.range(0, 2));
        let lead = *rng.pick(&["", "", "<p>before</p>", "lead ", " "]);
        let tail = *rng.pick(&["", "<p>after</p>", " tail"]);
        let body = format!("{}{}{}{}text here{}{}{}", lead, o1, brs, b1, b2, o2, tail);
        let w = rng.range(6, 30);
        let cfg = Cfg { deco: *rng.pick(&[0u8, 1, 2]), ..Default::default() };
        for (role, h) in [("with_ids", body.replace(" ID", " id=a1")), ("without_ids", body.replace(" ID", ""))] {
            let id = cases.len();
            cases.push(mk_case(id, 1, cfg.clone(), w, h.into_bytes(), Some(1), g(role), "ids_vs_none"));
        }
        let k = cases.len();
        let gnum = 7_000_000 + k;
        cases[k - 1].group = gnum;
        cases[k - 2].group = gnum;
    }
    cases
}
fn vis_count(n: &DNode) -> usize {
    visible_chars(std::slice::from_ref(n)).len()
}
fn check_c14(cases: &[Case], results: &[Option<RunResult>]) -> Vec<Violation> {
    let mut v = Vec::new();
    for grp in groups(cases) {
        if grp.len() == 2 && cases[grp[0]].meta.role() == "with_ids" {
            if let (Some(ra), Some(rb)) = (&results[grp[0]], &results[grp[1]]) {
                let (ta, tb) = (out_lines(&ra.outcome), out_lines(&rb.outcome));
                if ta != tb || ra.outcome.kind() != rb.outcome.kind() {
                    v.push(viol(grp[0], "ids / names change the rendered text", format!("with ids {:?} without {:?}", ta.map(|l| l.join("|")), tb.map(|l| l.join("|"))), None));
                }
            }
        }
    }
    for (i, c) in cases.iter().enumerate() {
        if c.slice == "ids_vs_none" {
            continue;
        }
        let r = match &results[i] {
            Some(r) => r,
            None => continue,
        };
        let lines = match &r.outcome {
            Outcome::Lines(l) => l,
            _ => continue,
        };
        if !r.regular {
            continue;
        }
        let dom = dom_of(r);
        // expected: ids on elements with visible content; position = number of visible chars before
        let mut expect: Vec<(String, usize)> = Vec::new();
        let mut before = 0usize;
        fn go(n: &DNode, before: &mut usize, expect: &mut Vec<(String, usize)>) {
            match n {
                DNode::Text(_) => *before += vis_count(n),
                DNode::El { html, name, kids, .. } => {
                    if *html && ["head", "script", "style", "link", "meta", "hr", "template"].contains(&name.as_str()) {
                        return;
                    }
                    let frag = n.attr("id").or_else(|| if *html && name == "a" { n.attr("name") } else { None });
                    // first matching attribute in attribute order
                    let frag = if let DNode::El { attrs, .. } = n {
                        attrs.iter().find(|(k, _)| k == "id" || (*html && name == "a" && k == "name")).map(|(_, v)| v.as_str()).or(frag)
                    } else {
                        frag
                    };
                    if let Some(f) = frag {
                        if vis_count(n) > 0 {
                            expect.push((f.to_string(), *before));
                        }
                    }
                    if *html && name == "img" {
                        *before += vis_count(n);
                        return;
                    }
                    for k in kids {
                        go(k, before, expect);
                    }
                }
                _ => {}
            }
        }
        for n in &dom {
            go(n, &mut before, &mut expect);
        }
        // observed markers with the number of non-space chars before them
        let mut got: Vec<(String, usize)> = Vec::new();
        let mut count = 0usize;
        let mut widthful_marker = false;
        for l in lines {
            for e in l {
                match e {
                    Elem::Frag(n) => got.push((n.clone(), count)),
                    Elem::Str(s, _) => count += s.chars().filter(|ch| !ch.is_whitespace() && !is_box_char(*ch) && *ch != '/').count(),
                }
            }
            let _ = &mut widthful_marker;
        }
        let mut eg: Vec<String> = expect.iter().map(|x| x.0.clone()).collect();
        let mut gg: Vec<String> = got.iter().map(|x| x.0.clone()).collect();
        // markers of elements without visible content may or may not appear: compare on the expected set
        let expset: HashSet<String> = eg.iter().cloned().collect();
        gg.retain(|x| expset.contains(x));
        eg.sort();
        gg.sort();
        if eg != gg {
            // known: an id on table/thead/tbody/tr is attached to the first cell of the first
            // row; when that cell renders nothing the marker is lost
            let missing: Vec<&String> = eg.iter().filter(|x| !gg.contains(x)).collect();
            let extra = gg.iter().any(|x| !eg.contains(x)) || gg.len() + missing.len() != eg.len();
            let mut all_known = !extra && !missing.is_empty();
            for m in &missing {
                let mut ok = false;
                walk(&dom, &mut |n, _| {
                    if n.attr("id") == Some(m.as_str()) && (n.is("table") || n.is("tbody") || n.is("thead") || n.is("tr")) {
                        // first cell in document order below n
                        let mut first: Option<&DNode> = None;
                        walk(n.kids(), &mut |x, _| {
                            if first.is_none() && (x.is("td") || x.is("th")) {
                                first = Some(x);
                            }
                        });
                        let first = if n.is("tr") { n.kids().iter().find(|x| x.is("td") || x.is("th")) } else { first };
                        if first.map(|f| vis_count(f) == 0).unwrap_or(true) {
                            ok = true;
                        }
                    }
                });
                if !ok {
                    all_known = false;
                }
            }
            v.push(viol(i, "fragment markers are not exactly the ids with visible content", format!("expected {:?} got {:?}", eg, gg), if all_known { Some("row_marker_in_empty_first_cell") } else { None }));
            continue;
        }
        // placement (trivial decorator, table-free: the non-space stream is V(d))
        let ordered = (c.slice == "flow" && !has_element(&dom, &["table"])) || c.spec.cfg.raw == 1;
        if c.spec.cfg.deco == 3 && ordered && !has_element(&dom, &["s", "del", "sup"]) {
            let gm: HashMap<String, usize> = got.iter().filter(|x| expset.contains(&x.0)).map(|x| (x.0.clone(), x.1)).collect();
            for (name, pos) in &expect {
                if let Some(p) = gm.get(name) {
                    if p != pos {
                        v.push(viol(i, "fragment marker is not at its element's first visible character", format!("{} expected after {} chars, found after {}", name, pos, p), None));
                        break;
                    }
                }
            }
        }
    }
    v
}
fn nontrivial_c14(_c: &Case, r: &RunResult) -> bool {
    match &r.outcome {
        Outcome::Lines(ls) => ls.iter().flatten().filter(|e| matches!(e, Elem::Frag(_))).count() >= 1 && ls.len() >= 2,
        _ => false,
    }
}

// ======================================================================
// C09 rich annotations
// ======================================================================
fn gen_c09(tier: &str, rng: &mut Rng) -> Vec<Case> {
    let n = if tier == "thorough" { 80000 } else { 4000 };
    let mut cases = Vec::new();
    for _ in 0..n {
        let tables = rng.chance(1, 3);
        let css = rng.chance(1, 3);
        let o = GenOpts { tables: if tables { 1 } else { 0 }, nested_tables: false, links: true, ids: false, pre: true, dl: true, imgs: true, strike: true, sup: rng.chance(1, 2), colours: css, combining: false, wide: false, odd_links: true, ..Default::default() };
        let (mut html, _) = gen_doc(rng, o);
        // an annotating element around whole blocks: its annotation must reach the text inside
        // list items, quotes, headings and table cells (they are rendered by nested sub-renderers)
        if rng.chance(1, 6) {
            let (open, close) = *rng.pick(&[("<pre>", "</pre>"), ("<s>", "</s>"), ("<em>", "</em>"), ("<code>", "</code>"), ("<a href=\"http://w.example/\">", "</a>"), ("<strong>", "</strong>")]);
            html = format!("{}{}{}", open, html, close);
        }
        let mut cfg = Cfg { deco: 2, ..Default::default() };
        cfg.doc_css = css;
        let w = if rng.chance(1, 4) { rng.range(1, 12) } else { rng.range(10, 100) };
        let id = cases.len();
        cases.push(mk_case(id, 1, cfg, w, html.into_bytes(), Some(1), g(""), if tables { "tables" } else { "flow" }));
    }
    // preformatted blocks cut into pieces: the continuation flag of every piece (C12's family and
    // its tag check, rich decorator only)
    let mut extra = gen_c12(if tier == "thorough" { "thorough" } else { "quick" }, rng);
    extra.retain(|c| c.spec.cfg.deco == 2);
    extra.truncate(n / 3);
    for mut c in extra {
        c.spec.id = cases.len();
        c.group = cases.len();
        c.slice = "pre_pieces";
        cases.push(c);
    }
    // annotated text in a table cell: the padding of the cell (and the other cell, and the bars)
    // is not inside the element, so no more characters carry the annotation than the element has
    let na = if tier == "thorough" { 10000 } else { 1000 };
    for _ in 0..na {
        let (open, close, kind) = *rng.pick(&[("<pre>", "</pre>", 0i64), ("<em>", "</em>", 1), ("<code>", "</code>", 2), ("<strong>", "</strong>", 3), ("<a href=\"u\">", "</a>", 4), ("<s>", "</s>", 5)]);
        let words = ["aaaa", "bbbbbbbb", "cc", "d", "eeeeee", "ff"];
        let mut body = String::new();
        for j in 0..rng.range(2, 5) {
            if j > 0 {
                body.push(' ');
            }
            body.push_str(*rng.pick(&words));
        }
        if rng.chance(1, 3) {
            body.push(' ');
        }
        let other = *rng.pick(&["1234 5678 90 1234 5678", "12", "123456789", ""]);
        let html = if rng.chance(1, 2) {
            format!("<table><tr><td>{}{}{}</td><td>{}</td></tr></table>", open, body, close, other)
        } else {
            format!("<table><tr><td>{}</td><td>{}{}{}</td></tr><tr><td>3</td><td>4</td></tr></table>", other, open, body, close)
        };
        let cfg = Cfg { deco: 2, ..Default::default() };
        let id = cases.len();
        let mut c = mk_case(id, 1, cfg, rng.range(4, 30), html.into_bytes(), Some(1), Meta::G { role: "annot_cell", strs: vec![body], nums: vec![kind] }, "annot_cells");
        c.group = cases.len();
        cases.push(c);
    }
    cases
}
fn parse_inline_colour(style: &str) -> Option<(bool, (u8, u8, u8))> {
    // generator styles: "color:X;" or "background-color:X;"
    let (bg, val) = if let Some(v) = style.strip_prefix("background-color:") { (true, v) } else if let Some(v) = style.strip_prefix("color:") { (false, v) } else { return None };
    let val = val.trim_end_matches(';');
    let c = match val {
        "red" => (255, 0, 0),
        "#00f" => (0, 0, 255),
        "rgb(1,2,3)" => (1, 2, 3),
        "green" => (0, 128, 0),
        _ => return None,
    };
    Some((bg, c))
}
fn check_c09(cases: &[Case], results: &[Option<RunResult>]) -> Vec<Violation> {
    let mut v = Vec::new();
    {
        let idx: Vec<usize> = (0..cases.len()).filter(|i| cases[*i].slice == "pre_pieces").collect();
        let sub_cases: Vec<Case> = idx.iter().map(|i| cases[*i].clone()).collect();
        let sub_results: Vec<Option<RunResult>> = idx.iter().map(|i| results[*i].clone()).collect();
        for mut x in check_c12(&sub_cases, &sub_results) {
            x.case_idx = idx[x.case_idx];
            // (the recorded class of C12 is C12's to report)
            if x.known.is_none() && x.clause.contains("tag") {
                v.push(x);
            }
        }
    }
    for (i, c) in cases.iter().enumerate() {
        if c.slice == "pre_pieces" {
            continue;
        }
        let r = match &results[i] {
            Some(r) => r,
            None => continue,
        };
        let lines = match &r.outcome {
            Outcome::Lines(l) => l,
            _ => continue,
        };
        if c.meta.role() == "annot_cell" {
            let kind = c.meta.nums()[0];
            let has = |tag: &Vec<Ann>| tag.iter().any(|a| match (kind, a) {
                (0, Ann::Pre(_)) | (1, Ann::Em) | (2, Ann::Code) | (3, Ann::Strong) | (4, Ann::Link(_)) | (5, Ann::Strike) => true,
                _ => false,
            });
            let limit = c.meta.strs()[0].chars().count();
            let mut count = 0usize;
            let mut stray: Option<String> = None;
            for l in lines {
                for e in l {
                    if let Elem::Str(st, tag) = e {
                        if has(tag) {
                            count += st.chars().filter(|ch| *ch != '\u{336}').count();
                            if st.chars().any(|ch| ch.is_ascii_digit() || ch == '│' || ch == '─') {
                                stray = Some(st.clone());
                            }
                        }
                    }
                }
            }
            if let Some(st) = stray {
                v.push(viol(i, "text outside an element carries its annotation", format!("{:?} in {:?}", st, lines), None));
            } else if count > limit {
                v.push(viol(i, "more characters carry an element's annotation than the element has (cell padding annotated)", format!("{} annotated characters, the element has {}: {:?}", count, limit, lines), None));
            }
            continue;
        }
        if !r.regular {
            continue;
        }
        let dom = dom_of(r);
        // expected annotation vector per unique token
        let mut expect: HashMap<String, Vec<Ann>> = HashMap::new();
        let mut dup: HashSet<String> = HashSet::new();
        let mut table_styled = false;
        walk(&dom, &mut |n, anc| {
            let mut anns: Vec<Ann> = Vec::new();
            let mut pre = false;
            let mut chain: Vec<&DNode> = anc.to_vec();
            if matches!(n, DNode::El { .. }) {
                chain.push(n);
            }
            for a in &chain {
                if let DNode::El { html: true, name, .. } = a {
                    if c.spec.cfg.doc_css {
                        if let Some(st) = a.attr("style") {
                            if let Some((bg, (r_, g_, b_))) = parse_inline_colour(st) {
                                if name == "table" {
                                    table_styled = true;
                                }
                                anns.push(if bg { Ann::Bg(r_, g_, b_) } else { Ann::Colour(r_, g_, b_) });
                            }
                        }
                    }
                    if c.spec.cfg.doc_css {
                        // (style first, then color=, then bgcolor= : the generator writes at most one)
                        for (k, bg) in [("color", false), ("bgcolor", true)] {
                            if let Some(val) = a.attr(k) {
                                let rgb = match val {
                                    "red" => Some((255u8, 0u8, 0u8)),
                                    "#00f" => Some((0, 0, 255)),
                                    "green" => Some((0, 128, 0)),
                                    "00aabb" => Some((0, 0xaa, 0xbb)),
                                    "#0a0b0c" => Some((10, 11, 12)),
                                    _ => None,
                                };
                                if let Some((r_, g_, b_)) = rgb {
                                    if name == "table" {
                                        table_styled = true;
                                    }
                                    anns.push(if bg { Ann::Bg(r_, g_, b_) } else { Ann::Colour(r_, g_, b_) });
                                }
                            }
                        }
                    }
                    match name.as_str() {
                        "em" | "i" | "ins" | "dt" => anns.push(Ann::Em),
                        "strong" => anns.push(Ann::Strong),
                        "s" | "del" => anns.push(Ann::Strike),
                        "code" => anns.push(Ann::Code),
                        "a" => {
                            if let Some(h) = a.attr("href") {
                                anns.push(Ann::Link(h.to_string()))
                            }
                        }
                        "pre" => pre = true,
                        // a superscript that is not plain digits is wrapped in ^{ } under its own annotation
                        "sup" => {
                            // (the digits special case needs a sole text child)
                            let digits_only = matches!(a.kids(), [DNode::Text(t)] if !t.is_empty() && t.chars().all(|ch| ch.is_ascii_digit()));
                            if !digits_only {
                                anns.push(Ann::Default)
                            }
                        }
                        _ => {}
                    }
                }
            }
            let toks: Vec<String> = match n {
                DNode::Text(t) => t.split_whitespace().map(|s| s.to_string()).collect(),
                DNode::El { html: true, name, .. } if name == "img" => {
                    let alt = n.attr("alt").unwrap_or("");
                    let src = n.attr("src").unwrap_or("");
                    if !alt.is_empty() && !src.is_empty() {
                        anns.push(Ann::Image(src.to_string()));
                        alt.split_whitespace().map(|s| s.to_string()).collect()
                    } else {
                        vec![]
                    }
                }
                _ => vec![],
            };
            if pre {
                anns.push(Ann::Pre(false));
            }
            for t in toks {
                if expect.insert(t.clone(), anns.clone()).is_some() {
                    dup.insert(t);
                }
            }
        });
        let _ = table_styled;
        // a hard-wrapped piece of a longer word can coincide with a shorter token ("qcyu" inside
        // "qqcyu"): tokens that occur inside another token are not judged
        {
            let all: Vec<String> = expect.keys().cloned().collect();
            for t in &all {
                if all.iter().any(|u| u != t && u.contains(t.as_str())) {
                    dup.insert(t.clone());
                }
            }
            // ... nor tokens made of superscript digits only: a digits-only <sup>2</sup> prints the
            // same glyph without the annotation a literal "\u{b2}" in a <sup> carries
            for t in &all {
                if t.chars().all(|ch| "\u{2070}\u{b9}\u{b2}\u{b3}\u{2074}\u{2075}\u{2076}\u{2077}\u{2078}\u{2079}".contains(ch)) {
                    dup.insert(t.clone());
                }
            }
            // ... nor tokens that also arise across a node boundary ("qdye" + "eu" cut as "qdy" /
            // "eeu"): the token must occur exactly once in the document's white-space-free text
            let alltext: String = visible_chars(&dom).into_iter().collect();
            for t in &all {
                let mut cnt = 0;
                let mut from = 0;
                while let Some(p) = alltext[from..].find(t.as_str()) {
                    cnt += 1;
                    from += p + t.chars().next().map(|c| c.len_utf8()).unwrap_or(1);
                    if cnt > 1 {
                        break;
                    }
                }
                if cnt > 1 {
                    dup.insert(t.clone());
                }
            }
        }
        // the display width of the preformatted source line each token sits on: a piece may carry
        // the continuation flag only if its source line does not fit beside the line's prefix
        let has_table_c09 = has_element(&dom, &["table"]);
        let mut pre_line_width: HashMap<String, usize> = HashMap::new();
        walk(&dom, &mut |n, _| {
            if n.is("pre") {
                fn all_text(n: &DNode, o: &mut String) {
                    match n {
                        DNode::Text(t) => o.push_str(t),
                        DNode::El { kids, .. } => kids.iter().for_each(|k| all_text(k, o)),
                        _ => {}
                    }
                }
                // only blocks made of text and plain inline elements: images, line breaks and nested
                // blocks change what a "source line" is
                fn simple(n: &DNode) -> bool {
                    match n {
                        DNode::Text(_) => true,
                        DNode::El { html: true, name, kids, .. } => ["pre", "em", "strong", "code", "span", "b", "i", "s", "del", "a"].contains(&name.as_str()) && kids.iter().all(simple),
                        _ => false,
                    }
                }
                if !simple(n) {
                    return;
                }
                let mut t = String::new();
                all_text(n, &mut t);
                for line in t.split('\n') {
                    let w = str_width(&expand_tabs(line));
                    for tok in line.split_whitespace() {
                        pre_line_width.insert(tok.to_string(), w);
                    }
                }
            }
        });
        'outer: for l in lines {
            let has_pre = |t: &Vec<Ann>| t.iter().any(|a| matches!(a, Ann::Pre(_)));
            let mut prefix_w = 0usize;
            for e in l {
                if let Elem::Str(s, tag) = e {
                    if has_pre(tag) {
                        break;
                    }
                    prefix_w += str_width(s);
                }
            }
            for e in l {
                if let Elem::Str(s, tag) = e {
                    for tok in s.split_whitespace() {
                        let tok: String = tok.chars().filter(|ch| *ch != '\u{336}').collect();
                        if dup.contains(&tok) {
                            continue;
                        }
                        if let Some(exp) = expect.get(&tok) {
                            let mut exp2 = exp.clone();
                            let mut got = tag.clone();
                            // a continuation piece of a preformatted line carries Pre(true)
                            if let (Some(Ann::Pre(_)), Some(Ann::Pre(flag))) = (exp2.last(), got.last()) {
                                // (inside table cells the available width is the column's, not known here)
                                if *flag && !has_table_c09 {
                                    if let Some(lw) = pre_line_width.get(&tok) {
                                        if *lw + prefix_w <= c.spec.width {
                                            v.push(viol(i, "continuation flag on a piece of a preformatted line that fits", format!("token {:?}: source line is {} columns, prefix {}, width {}", tok, lw, prefix_w, c.spec.width), None));
                                            break 'outer;
                                        }
                                    }
                                }
                                exp2.pop();
                                got.pop();
                            }
                            if exp2 != got {
                                v.push(viol(i, "annotations differ from the enclosing elements", format!("token {:?}: expected {:?} got {:?}", tok, exp, tag), None));
                                break 'outer;
                            }
                        }
                    }
                }
            }
        }
        // line text equals the string route: checked by C10 (routes) on the same generator family
    }
    v
}
fn nontrivial_c09(_c: &Case, r: &RunResult) -> bool {
    match &r.outcome {
        Outcome::Lines(ls) => ls.iter().flatten().any(|e| matches!(e, Elem::Str(_, t) if t.len() >= 2)),
        _ => false,
    }
}

// ======================================================================
// C12 preformatted text
// ======================================================================
fn expand_tabs(line: &str) -> String {
    let mut o = String::new();
    let mut col = 0usize;
    for c in line.chars() {
        if c == '\t' {
            let mut one = false;
            while col % 8 != 0 || !one {
                o.push(' ');
                col += 1;
                one = true;
            }
        } else {
            o.push(c);
            col += cw(c);
        }
    }
    o
}
fn gen_c12(tier: &str, rng: &mut Rng) -> Vec<Case> {
    let n = if tier == "thorough" { 100000 } else { 5000 };
    let mut cases = Vec::new();
    for _ in 0..n {
        let mut gnr = Gen::new(rng, GenOpts { combining: false, ..Default::default() });
        let src = gnr.pre_text();
        let wrapk = gnr.rng.below(6);
        let deco = *gnr.rng.pick(&[1u8, 2]);
        // optionally put inline elements into the block (also right after a newline) and <br>
        let src_html: String = if gnr.rng.chance(1, 2) {
            let cs: Vec<char> = src.chars().collect();
            let mut o = String::new();
            let mut i = 0;
            while i < cs.len() {
                let step = gnr.rng.range(1, 9).min(cs.len() - i);
                let seg: String = cs[i..i + step].iter().collect();
                if gnr.rng.chance(1, 3) {
                    let name = *gnr.rng.pick(&["b", "em", "span", "code", "strong"]);
                    o.push_str(&format!("<{}>{}</{}>", name, seg, name));
                } else {
                    o.push_str(&seg);
                }
                i += step;
            }
            o
        } else {
            src.clone()
        };
        // a <br> ends a line exactly like a newline character does
        let src_html: String = if gnr.rng.chance(1, 3) {
            let mut o = String::new();
            for (k, ch) in src_html.chars().enumerate() {
                if ch == '\n' && k > 0 && gnr.rng.chance(1, 3) {
                    o.push_str("<br>");
                } else {
                    o.push(ch);
                }
            }
            o
        } else {
            src_html
        };
        let src = src; // the text content is unchanged
        let (html, prefix): (String, usize) = match wrapk {
            0 => (format!("<ul><li><pre>{}</pre></li></ul>", src_html), 2),
            1 => (format!("<blockquote><pre>{}</pre></blockquote>", src_html), 2),
            _ => (format!("<pre>{}</pre>", src_html), 0),
        };
        let w = rng.range(1, 60);
        let cfg = Cfg { deco, ..Default::default() };
        let route = if deco == 2 { 1 } else { 0 };
        let id = cases.len();
        cases.push(mk_case(id, route, cfg, w, html.into_bytes(), Some(route as u64), Meta::G { role: "pre", strs: vec![src], nums: vec![prefix as i64] }, if prefix > 0 { "nested" } else { "top" }));
    }
    cases
}
fn check_c12(cases: &[Case], results: &[Option<RunResult>]) -> Vec<Violation> {
    let mut v = Vec::new();
    for (i, c) in cases.iter().enumerate() {
        let r = match &results[i] {
            Some(r) => r,
            None => continue,
        };
        if c.meta.role() != "pre" {
            continue;
        }
        // the HTML parser drops a newline that immediately follows <pre>
        // corpus cases carry no generator metadata: take the text of the <pre> from the DOM
        // (there the parser has already dropped the first newline)
        let (src_owned, prefix): (String, usize) = if c.meta.nums().is_empty() {
            let dom = dom_of(r);
            let mut txt = String::new();
            let mut pfx = 0usize;
            fn find(n: &DNode, depth_pfx: usize, txt: &mut String, pfx: &mut usize) {
                if let DNode::El { kids, .. } = n {
                    if n.is("pre") {
                        fn all_text(n: &DNode, o: &mut String) {
                            match n {
                                DNode::Text(t) => o.push_str(t),
                                DNode::El { kids, .. } => kids.iter().for_each(|k| all_text(k, o)),
                                _ => {}
                            }
                        }
                        all_text(n, txt);
                        *pfx = depth_pfx;
                        return;
                    }
                    let d = if n.is("li") || n.is("blockquote") { depth_pfx + 2 } else { depth_pfx };
                    kids.iter().for_each(|k| find(k, d, txt, pfx));
                }
            }
            dom.iter().for_each(|n| find(n, 0, &mut txt, &mut pfx));
            (txt, pfx)
        } else {
            let src0 = &c.meta.strs()[0];
            (src0.strip_prefix('\n').unwrap_or(src0).to_string(), c.meta.nums()[0] as usize)
        };
        let src: &str = &src_owned;
        // a top-level block is too narrow only when some character is wider than the width
        if matches!(r.outcome, Outcome::TooNarrow) && r.regular && prefix == 0 && c.slice == "top" && !c.spec.cfg.overflow && c.spec.cfg.max_wrap.is_none() {
            let widest = src.chars().map(|ch| str_width(&ch.to_string())).max().unwrap_or(0);
            if c.spec.width >= 1 && widest <= c.spec.width {
                v.push(viol(i, "a preformatted block whose every character fits the width is reported too narrow instead of being cut", format!("width {} widest character {}", c.spec.width, widest), None));
            }
            continue;
        }
        let got = match out_lines(&r.outcome) {
            Some(l) => l,
            None => continue,
        };
        if c.spec.width <= prefix {
            continue;
        }
        let avail = c.spec.width - prefix;
        // strip prefix columns
        let body: Vec<String> = got.iter().map(|l| l.chars().skip(prefix).collect::<String>()).collect();
        let src_lines: Vec<String> = src.split('\n').map(expand_tabs).collect();
        let maxw = src_lines.iter().map(|l| str_width(l)).max().unwrap_or(0);
        if maxw <= avail {
            let exp: Vec<String> = src_lines.iter().map(|l| l.trim_end_matches(' ').to_string()).collect();
            let gotr: Vec<String> = body.iter().map(|l| l.trim_end_matches(' ').to_string()).collect();
            // leading/trailing blank lines of the block are not pinned by the property text
            let trim = |v: &Vec<String>| {
                let mut a = 0;
                let mut b = v.len();
                while a < b && v[a].is_empty() {
                    a += 1;
                }
                while b > a && v[b - 1].is_empty() {
                    b -= 1;
                }
                v[a..b].to_vec()
            };
            if trim(&exp) != trim(&gotr) {
                v.push(viol(i, "fitting preformatted block is not reproduced line for line", format!("expected {:?} got {:?}", exp, gotr), None));
            }
        } else {
            let a = nonspace(&src.replace('\t', " "));
            let b = nonspace(&body.join("\n"));
            if a != b {
                v.push(viol(i, "cut preformatted block lost, duplicated or reordered characters", String::new(), None));
            } else if body.iter().any(|l| str_width(l) > avail) {
                v.push(viol(i, "piece of a cut preformatted line wider than the available width", String::new(), None));
            }
        }
        // tags: the first piece of every source line Preformat(false), the overflow pieces
        // Preformat(true).  Blank lines carry no tagged text, so the non-blank source lines are
        // matched against runs of non-blank output lines by their non-space characters.
        if let Outcome::Lines(ls) = &r.outcome {
            let pre_of = |t: &Vec<Ann>| t.iter().find_map(|a| if let Ann::Pre(b) = a { Some(*b) } else { None });
            // per output line: the Pre-tagged elements (the list/quote prefix carries no Pre tag)
            let out: Vec<Vec<(&str, bool)>> = ls
                .iter()
                .map(|l| l.iter().filter_map(|e| if let Elem::Str(s, t) = e { pre_of(t).map(|b| (s.as_str(), b)) } else { None }).collect::<Vec<_>>())
                .filter(|l: &Vec<(&str, bool)>| l.iter().any(|(s, _)| !s.trim().is_empty()))
                .collect();
            let mut oi = 0usize;
            let mut kf: Option<Violation> = None;
            'lines: for sl in src_lines.iter().filter(|l| !l.trim().is_empty()) {
                let ns = nonspace(sl);
                let lead_ws = str_width(&sl.chars().take_while(|c| c.is_whitespace()).collect::<String>());
                let mut acc = String::new();
                // leading spaces followed by a word that does not fit beside them: the spaces are
                // emitted as a (blank) first piece and the word starts the second one
                let first_word_w = str_width(&sl.trim_start().chars().take_while(|c| !c.is_whitespace()).collect::<String>());
                let mut k = if lead_ws > 0 && lead_ws < avail && lead_ws + first_word_w > avail { 1usize } else { 0 };
                while acc != ns {
                    if oi >= out.len() || acc.len() > ns.len() {
                        break 'lines; // conservation is judged above
                    }
                    let piece = &out[oi];
                    let want_cont = k > 0;
                    // a source line whose leading spaces alone fill the width: the dropped blank
                    // piece may or may not count as the first piece
                    let lenient = k == 0 && lead_ws >= avail;
                    if !lenient {
                        let bad = piece.iter().position(|(s, b)| !s.trim().is_empty() && *b != want_cont);
                        if let Some(_) = bad {
                            // known shape: a word that began before the overflow column and was then
                            // moved whole to the next piece keeps Preformat(false) on its first characters
                            let mut known = None;
                            if want_cont && !piece[0].0.starts_with(char::is_whitespace) {
                                let stop = piece.iter().position(|(s, b)| *b || s.chars().any(|c| c.is_whitespace())).unwrap_or(piece.len());
                                let later_false = piece.iter().enumerate().any(|(j, (s, b))| j >= stop && !*b && !s.trim().is_empty());
                                // the piece starts at a source word boundary
                                let before = acc.chars().count();
                                let mut cnt = 0usize;
                                let mut prev_ws = true;
                                let mut at_boundary = false;
                                for ch in sl.chars() {
                                    if ch.is_whitespace() {
                                        prev_ws = true;
                                        continue;
                                    }
                                    if cnt == before {
                                        at_boundary = prev_ws;
                                        break;
                                    }
                                    cnt += 1;
                                    prev_ws = false;
                                }
                                if !later_false && at_boundary {
                                    known = Some("pre_moved_word_first_tag");
                                }
                            }
                            let vi = viol(
                                i,
                                if want_cont { "overflow piece of a preformatted line not tagged Preformat(true)" } else { "first piece of a preformatted line not tagged Preformat(false)" },
                                format!("source line {:?} piece {} = {:?}", sl, k, piece),
                                known,
                            );
                            if known.is_some() {
                                // keep judging the remaining pieces; report the known shape once
                                if kf.is_none() {
                                    kf = Some(vi);
                                }
                            } else {
                                kf = None;
                                v.push(vi);
                                break 'lines;
                            }
                        }
                    }
                    for (s, _) in piece {
                        acc.push_str(&nonspace(s));
                    }
                    oi += 1;
                    k += 1;
                }
            }
            if let Some(vi) = kf {
                v.push(vi);
            }
        }
    }
    v
}
fn nontrivial_c12(_c: &Case, r: &RunResult) -> bool {
    out_lines(&r.outcome).map(|l| l.len() >= 2).unwrap_or(false)
}

// ======================================================================
// C03 text preserved
// ======================================================================
fn gen_c03(tier: &str, rng: &mut Rng) -> Vec<Case> {
    let n = if tier == "thorough" { 100000 } else { 5000 };
    let mut cases = Vec::new();
    for _ in 0..n {
        let tables = rng.chance(1, 3);
        let o = GenOpts { tables: if tables { 1 } else { 0 }, nested_tables: tables, links: true, ids: true, pre: true, dl: true, imgs: true, strike: true, sup: true, br: true, ..Default::default() };
        let (html, _) = gen_doc(rng, o);
        let mut bytes = html.into_bytes();
        if rng.chance(1, 10) {
            bytes = mutate(rng, &bytes);
        }
        let mut cfg = Cfg { deco: *rng.pick(&[3u8, 3, 0, 1, 2]), ..Default::default() };
        if rng.chance(1, 5) {
            cfg.raw = 1;
        }
        if rng.chance(1, 6) {
            cfg.pad = true;
        }
        if rng.chance(1, 6) {
            cfg.max_wrap = Some(if rng.chance(1, 3) { rng.range(1, 3) } else { rng.range(1, 30) });
        }
        if rng.chance(1, 4) {
            cfg.overflow = true;
        }
        cfg.strike = 2;
        let mut w = if rng.chance(1, 4) { rng.range(1, 10) } else { rng.range(1, 200) };
        if rng.chance(1, 8) {
            // very narrow blocks with overflow allowed: wide characters overflow one by one
            cfg.overflow = true;
            if rng.chance(1, 2) {
                w = rng.range(1, 3);
            } else {
                cfg.max_wrap = Some(rng.range(1, 2));
            }
        }
        let id = cases.len();
        // the labelled model route (2) gives provenance for the decorated configurations
        cases.push(mk_case(id, 1, cfg, w, bytes, Some(2), g(""), if tables { "tables" } else { "flow" }));
    }
    // blocks shown or hidden by competing display rules of equal specificity (the later one wins):
    // the text of exactly the shown blocks is rendered
    let nd = if tier == "thorough" { 20000 } else { 1500 };
    for k in 0..nd {
        let classes = ["k1", "k2", "k3", "k4", "k5"];
        // rule i: (class, hides?) in source order
        let nrules = rng.range(2, 5);
        let rules: Vec<(usize, bool)> = (0..nrules).map(|_| (rng.below(5), rng.chance(1, 2))).collect();
        let mut html = String::new();
        let mut expect = String::new();
        for b in 0..rng.range(2, 7) {
            let mine: Vec<usize> = (0..5).filter(|_| rng.chance(1, 3)).collect();
            let tok = format!("t{}b{}x", k, b);
            let name = *rng.pick(&["p", "div", "li", "blockquote", "h3"]);
            let sep = *rng.pick(&[" ", " ", "  ", "\t", "\n", "\n   ", "\u{c}", "\r\n"]);
            let cls = mine.iter().map(|c| classes[*c]).collect::<Vec<_>>().join(sep);
            let el = if cls.is_empty() { format!("<{}>{}</{}>", name, tok, name) } else { format!("<{} class=\"{}\">{}</{}>", name, cls, tok, name) };
            html.push_str(&if name == "li" { format!("<ul>{}</ul>", el) } else { el });
            // the last rule that matches decides
            let hidden = rules.iter().rev().find(|(c, _)| mine.contains(c)).map(|(_, h)| *h).unwrap_or(false);
            if !hidden {
                expect.push_str(&tok);
            }
        }
        let sheet: String = rules.iter().map(|(c, h)| format!(".{}{{display:{}}}", classes[*c], if *h { "none" } else { *rng.pick(&["block", "inline", "list-item"]) })).collect::<Vec<_>>().join(if rng.chance(1, 2) { " " } else { "\n" });
        let mut cfg = Cfg { deco: 3, ..Default::default() };
        cfg.strike = 2;
        let html = match rng.below(3) {
            0 => {
                cfg.user_css.push(sheet);
                html
            }
            1 => {
                cfg.doc_css = true;
                format!("<style>{}</style>{}", sheet, html)
            }
            _ => {
                // the rules split over two style elements
                cfg.doc_css = true;
                let cut = sheet.find('}').map(|p| p + 1).unwrap_or(sheet.len());
                format!("<style>{}</style><style>{}</style>{}", &sheet[..cut], &sheet[cut..], html)
            }
        };
        let id = cases.len();
        cases.push(mk_case(id, 1, cfg, rng.range(8, 80), html.into_bytes(), Some(1), Meta::G { role: "css_display", strs: vec![expect], nums: vec![] }, "css_display"));
    }
    // tiny tables at narrow widths, with and without borders (the stacked / side-by-side window)
    let nt = if tier == "thorough" { 20000 } else { 1500 };
    for _ in 0..nt {
        let (html, _) = crate::props5::tiny_table(rng);
        let mut cfg = Cfg { deco: *rng.pick(&[3u8, 3, 0, 2]), ..Default::default() };
        cfg.no_borders = rng.chance(1, 2);
        cfg.strike = 2;
        let w = rng.range(1, 12);
        let id = cases.len();
        cases.push(mk_case(id, 1, cfg, w, html.into_bytes(), Some(2), g(""), "tiny_tables"));
    }
    cases
}
fn sup_back(c: char) -> char {
    match c {
        '⁰' => '0',
        '¹' => '1',
        '²' => '2',
        '³' => '3',
        '⁴' => '4',
        '⁵' => '5',
        '⁶' => '6',
        '⁷' => '7',
        '⁸' => '8',
        '⁹' => '9',
        c => c,
    }
}
pub fn c03_known(dom: &[DNode]) -> Option<&'static str> {
    let mut k = None;
    walk(dom, &mut |n, anc| {
        if n.is("tfoot") || n.is("caption") {
            k = Some("table_tfoot_caption_dropped");
        }
        if let DNode::Text(t) = n {
            if !t.trim().is_empty() {
                if let Some(p) = anc.last() {
                    if p.is("ol") || p.is("dl") || p.is("table") || p.is("tr") || p.is("tbody") || p.is("thead") {
                        k = Some("loose_text_in_list_or_table");
                    }
                }
            }
        }
        if let Some(p) = anc.last() {
            let item_ok = (p.is("ol") && n.is("li")) || (p.is("dl") && (n.is("dt") || n.is("dd")));
            if (p.is("ol") || p.is("dl")) && matches!(n, DNode::El { .. }) && !item_ok && vis_count(n) > 0 {
                k = Some("loose_text_in_list_or_table");
            }
            if (p.is("tr") && !(n.is("td") || n.is("th"))) || ((p.is("tbody") || p.is("thead") || p.is("table")) && !(n.is("tr") || n.is("tbody") || n.is("thead") || n.is("tfoot") || n.is("caption"))) {
                if vis_count(n) > 0 {
                    k = Some("loose_text_in_list_or_table");
                }
            }
        }
        if n.is("img") {
            let alt = n.attr("alt").unwrap_or("");
            let src = n.attr("src").unwrap_or("");
            if !alt.is_empty() && src.is_empty() {
                k = Some("img_alt_without_src");
            }
        }
        let _ = n;
    });
    k
}
fn check_c03(cases: &[Case], results: &[Option<RunResult>]) -> Vec<Violation> {
    let mut v = Vec::new();
    for (i, c) in cases.iter().enumerate() {
        let r = match &results[i] {
            Some(r) => r,
            None => continue,
        };
        if c.spec.cfg.deco != 3 || !r.regular {
            continue; // decorated configurations: provenance via the labelled model (correspondence)
        }
        let text = match r.outcome.text() {
            Some(t) => t,
            None => continue,
        };
        if c.meta.role() == "css_display" {
            let got: String = text.chars().filter(|ch| !ch.is_whitespace()).collect();
            if got != c.meta.strs()[0] {
                v.push(viol(i, "text of the blocks shown under the style sheet is not exactly what is rendered", format!("expected {:?} got {:?}", c.meta.strs()[0], got), None));
            }
            continue;
        }
        let dom = dom_of(r);
        let vis: Vec<char> = visible_chars_strict(&dom);
        let has_table = has_element(&dom, &["table"]);
        let borders = has_table && c.spec.cfg.raw == 0 && !c.spec.cfg.no_borders;
        // with borders drawn, the border characters ('/' rules of stacked rows and the box-drawing
        // set) are not judged at all - not even when the document's own text contains them (byte
        // mutation leaves "</" fragments as text): they are dropped on both sides
        let is_border = |ch: &char| borders && (is_box_char(*ch) || *ch == '/');
        let vis: Vec<char> = vis.into_iter().filter(|ch| !is_border(ch)).collect();
        let out: Vec<char> = text
            .chars()
            .filter(|ch| !ch.is_whitespace())
            .filter(|ch| !is_border(ch))
            .map(sup_back)
            .collect();
        // <sup> non-digit content is wrapped in ^{ }
        let has_sup = has_element(&dom, &["sup"]);
        // the "^{" "}" around non-digit superscripts may be wrapped apart (and interleaved with
        // other cells): drop these three characters on both sides
        let supch = |ch: &char| *ch == '^' || *ch == '{' || *ch == '}';
        let out: Vec<char> = if has_sup { out.into_iter().filter(|ch| !supch(ch)).collect() } else { out };
        // (digits-only superscripts print as superscript digits: both sides are mapped back, so a
        // superscript digit in the source text compares equal to itself)
        let visn: Vec<char> = if has_sup { vis.iter().filter(|ch| !supch(ch)).copied().map(sup_back).collect() } else { vis.iter().copied().map(sup_back).collect() };
        let ordered = !has_table || c.spec.cfg.raw == 1;
        let ok = if ordered {
            out == visn
        } else {
            let mut a = out.clone();
            let mut b = visn.clone();
            a.sort();
            b.sort();
            a == b
        };
        if !ok {
            let known = c03_known(&dom).or(if has_table && colspan_zero_class(&dom, c.spec.width) { Some("zero_width_column_under_colspan") } else { None });
            v.push(viol(i, "document text is not preserved", format!("visible {:?} output {:?}", visn.iter().take(60).collect::<String>(), out.iter().take(60).collect::<String>()), known));
        }
    }
    v
}
/// Provenance check on the labelled model output (which the implementation's text equals when
/// the correspondence holds): the document labels (>= 16) carried by non-whitespace output
/// characters are exactly the labels of the visible characters of the DOM - in order for
/// table-free documents and raw mode, as a multiset otherwise - and every other non-whitespace
/// character is one the renderer made (label < 16).
fn check_model_c03(i: usize, c: &Case, r: &RunResult, mo: &Outcome, labels: &Vec<Vec<Vec<u64>>>) -> Option<Violation> {
    if c.meta.role() == "css_display" {
        return None; // judged on the implementation's text against the expected blocks
    }
    let lines = match mo {
        Outcome::Lines(l) => l,
        _ => return None,
    };
    if labels.len() != lines.len() {
        return None;
    }
    // expected labels: replicate Wire.label_doc over the DOM wire
    let w = &r.dom_wire;
    let mut pos = 0usize;
    let mut k: u64 = 16;
    let mut expected: Vec<u64> = Vec::new();
    fn rd(w: &[u64], pos: &mut usize) -> u64 {
        let x = w.get(*pos).copied().unwrap_or(0);
        *pos += 1;
        x
    }
    fn text(w: &[u64], pos: &mut usize) -> Vec<u64> {
        let n = rd(w, pos) as usize;
        (0..n).map(|_| rd(w, pos)).collect()
    }
    fn vis(code: u64) -> bool {
        let wsb = code % 2 == 1;
        let wc = (code / 2) % 8;
        !wsb && wc != 0
    }
    fn nodes(w: &[u64], pos: &mut usize, k: &mut u64, skip: bool, expected: &mut Vec<u64>) {
        let n = rd(w, pos) as usize;
        for _ in 0..n {
            match rd(w, pos) {
                0 => {
                    let html = rd(w, pos) != 0;
                    let name: String = text(w, pos).iter().map(|x| char::from_u32((*x / 16) as u32).unwrap_or('?')).collect();
                    let na = rd(w, pos) as usize;
                    let mut alt: Vec<(u64, u64)> = Vec::new();
                    let mut has_src = false;
                    for _ in 0..na {
                        let an: String = text(w, pos).iter().map(|x| char::from_u32((*x / 16) as u32).unwrap_or('?')).collect();
                        let av = text(w, pos);
                        if an == "alt" && !av.is_empty() {
                            alt = av.iter().enumerate().map(|(j, x)| (*x, *k + j as u64)).collect();
                        }
                        if an == "src" && !av.is_empty() {
                            has_src = true;
                        }
                        *k += av.len() as u64;
                    }
                    let sk = skip || (html && ["head", "script", "style", "link", "meta", "hr", "template"].contains(&name.as_str()));
                    let _ = has_src;
                    if html && name == "img" && !sk {
                        for (code, lab) in &alt {
                            if vis(*code) {
                                expected.push(*lab);
                            }
                        }
                    }
                    let sk2 = sk || (html && (name == "img" || name == "br"));
                    nodes(w, pos, k, sk2, expected);
                }
                1 => {
                    let t = text(w, pos);
                    for code in &t {
                        if !skip && vis(*code) {
                            expected.push(*k);
                        }
                        *k += 1;
                    }
                }
                _ => {}
            }
        }
    }
    nodes(w, &mut pos, &mut k, false, &mut expected);
    let mut got: Vec<u64> = Vec::new();
    for (l, ll) in lines.iter().zip(labels.iter()) {
        let mut si = 0usize;
        for e in l {
            if let Elem::Str(s, _) = e {
                if let Some(labs) = ll.get(si) {
                    for (ch, lab) in s.chars().zip(labs.iter()) {
                        if *lab >= 16 && !ch.is_whitespace() {
                            got.push(*lab);
                        }
                    }
                }
            }
            si += 1;
        }
    }
    let dom = dom_of(r);
    let ordered = !has_element(&dom, &["table"]) || c.spec.cfg.raw == 1;
    let ok = if ordered {
        got == expected
    } else {
        let mut a = got.clone();
        let mut b = expected.clone();
        a.sort();
        b.sort();
        a == b
    };
    if ok {
        None
    } else {
        Some(viol(i, "provenance of the model's output: a document character lost, duplicated or reordered", format!("expected {} labelled characters, output has {}", expected.len(), got.len()), c03_known(&dom).or(if colspan_zero_class(&dom, c.spec.width) { Some("zero_width_column_under_colspan") } else { None })))
    }
}
fn nontrivial_c03(_c: &Case, r: &RunResult) -> bool {
    out_lines(&r.outcome).map(|l| l.len() >= 2).unwrap_or(false)
}

/// C03 observable: the non-whitespace character stream.
fn proj_nonspace(o: &Outcome) -> Outcome {
    match o.text() {
        // letters and combining marks only: prefixes, borders, decorator markup and footnote
        // punctuation depend on where lines break, the document's own text does not
        Some(t) => Outcome::Str(t.chars().filter(|c| c.is_alphabetic() || ('\u{300}'..='\u{36f}').contains(c)).collect()),
        None => o.clone(),
    }
}
/// C08 observable: the "[k]" references in output order and the trailing footnote block.
fn proj_footnotes(o: &Outcome) -> Outcome {
    match o.text() {
        Some(t) => {
            let t: String = t.chars().filter(|c| *c != '\u{336}').collect();
            let lines: Vec<&str> = t.split('\n').collect();
            let p = lines.iter().position(|l| l.starts_with("[1]: ")).unwrap_or(lines.len());
            let body = nonspace(&lines[..p].join("\n"));
            let bs: Vec<char> = body.chars().collect();
            let mut refs = String::new();
            let mut k = 0;
            while k < bs.len() {
                if bs[k] == '[' {
                    let mut j = k + 1;
                    let mut num = String::new();
                    while j < bs.len() && bs[j].is_ascii_digit() {
                        num.push(bs[j]);
                        j += 1;
                    }
                    if !num.is_empty() && j < bs.len() && bs[j] == ']' && num.len() < 4 {
                        refs.push_str(&num);
                        refs.push(',');
                        k = j;
                    }
                }
                k += 1;
            }
            // references as a multiset (side-by-side cells interleave lines); the list unwrapped
            let mut rv: Vec<&str> = refs.split(',').filter(|x| !x.is_empty()).collect();
            rv.sort();
            Outcome::Str(format!("{}|{}", rv.join(","), lines[p..].concat()))
        }
        None => o.clone(),
    }
}
/// C14 observable: each marker with the number of non-whitespace characters before it.
fn proj_markers(o: &Outcome) -> Outcome {
    match o {
        Outcome::Lines(ls) => {
            let mut s = String::new();
            let mut count = 0usize;
            for l in ls {
                for e in l {
                    match e {
                        Elem::Frag(n) => s.push_str(&format!("{}@{};", n, count)),
                        Elem::Str(t, _) => count += t.chars().filter(|ch| !ch.is_whitespace()).count(),
                    }
                }
            }
            Outcome::Str(s)
        }
        other => other.clone(),
    }
}

pub fn prop_def3(id: &str) -> Option<PropDef> {
    match id {
        "C03" => Some(PropDef { id: "C03", generate: gen_c03, check: check_c03, nontrivial: nontrivial_c03, project: proj_nonspace, deadline_ms: 20000, check_model: Some(check_model_c03) }),
        "C08" => Some(PropDef { id: "C08", generate: gen_c08, check: check_c08, nontrivial: nontrivial_c08, project: proj_footnotes, deadline_ms: 20000, check_model: None }),
        "C09" => Some(PropDef { id: "C09", generate: gen_c09, check: check_c09, nontrivial: nontrivial_c09, project: ident, deadline_ms: 20000, check_model: None }),
        "C12" => Some(PropDef { id: "C12", generate: gen_c12, check: check_c12, nontrivial: nontrivial_c12, project: ident, deadline_ms: 20000, check_model: None }),
        "C13" => Some(PropDef { id: "C13", generate: gen_c13, check: check_c13, nontrivial: nontrivial_c13, project: ident, deadline_ms: 20000, check_model: None }),
        "C14" => Some(PropDef { id: "C14", generate: gen_c14, check: check_c14, nontrivial: nontrivial_c14, project: proj_markers, deadline_ms: 20000, check_model: None }),
        "C15" => Some(PropDef { id: "C15", generate: gen_c15, check: check_c15, nontrivial: nontrivial_c15, project: ident, deadline_ms: 20000, check_model: None }),
        other => crate::props4::prop_def4(other),
    }
}
