//! further properties (filled in progressively)
use crate::props::*;
pub fn prop_def3(_id: &str) -> Option<PropDef> {
    None
}
