//! further properties (filled in progressively)
use crate::props::*;
pub fn prop_def4(_id: &str) -> Option<PropDef> {
    None
}
