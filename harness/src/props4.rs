//! CSS properties: C17 C18 C19 C20
use crate::core::*;
use crate::dom::*;
use crate::gen::*;
use crate::pool::*;
use crate::props::*;
use crate::props2::*;
use std::collections::{HashMap, HashSet};

fn dom_of(r: &RunResult) -> Vec<DNode> {
    decode_dom(&r.dom_wire).unwrap_or_default()
}
fn groups(cases: &[Case]) -> Vec<Vec<usize>> {
    let mut m: HashMap<usize, Vec<usize>> = HashMap::new();
    let mut order = Vec::new();
    for (i, c) in cases.iter().enumerate() {
        let e = m.entry(c.group).or_default();
        if e.is_empty() {
            order.push(c.group);
        }
        e.push(i);
    }
    order.into_iter().map(|g| m.remove(&g).unwrap()).collect()
}

/// token -> innermost Colour / BgColour annotation (rich lines)
fn token_colours(o: &Outcome) -> HashMap<String, (Option<(u8, u8, u8)>, Option<(u8, u8, u8)>)> {
    let mut m = HashMap::new();
    if let Outcome::Lines(ls) = o {
        for l in ls {
            for e in l {
                if let Elem::Str(s, tag) = e {
                    let mut fg = None;
                    let mut bg = None;
                    for a in tag {
                        match a {
                            Ann::Colour(r, g, b) => fg = Some((*r, *g, *b)),
                            Ann::Bg(r, g, b) => bg = Some((*r, *g, *b)),
                            _ => {}
                        }
                    }
                    for t in s.split_whitespace() {
                        m.insert(t.to_string(), (fg, bg));
                    }
                }
            }
        }
    }
    m
}

// ======================================================================
// C19 cascade
// ======================================================================
#[derive(Clone, Copy, Debug, PartialEq)]
struct DeclK {
    origin: u8, // 0 agent 1 user 2 author 3 inline
    important: bool,
    spec: u8, // 0 element 1 class 2 id 3 element+class 4 nth-child
}
fn decl_kinds() -> Vec<DeclK> {
    let mut v = Vec::new();
    for origin in 0..3u8 {
        for important in [false, true] {
            for spec in 0..5u8 {
                v.push(DeclK { origin, important, spec });
            }
        }
    }
    for important in [false, true] {
        v.push(DeclK { origin: 3, important, spec: 0 });
    }
    v
}
fn sel_text(spec: u8) -> &'static str {
    match spec {
        0 => "p",
        1 => ".c",
        2 => "#i",
        3 => "p.c",
        _ => "p:nth-child(2)",
    }
}
fn spec_key(spec: u8) -> (u32, u32, u32) {
    match spec {
        0 => (0, 0, 1),
        1 => (0, 1, 0),
        2 => (1, 0, 0),
        3 => (0, 1, 1),
        _ => (0, 1, 1),
    }
}
fn layer(d: &DeclK) -> u32 {
    let o = if d.origin == 3 { 2 } else { d.origin };
    match (o, d.important) {
        (0, false) => 0,
        (1, false) => 1,
        (2, false) => 2,
        (2, true) => 3,
        (1, true) => 4,
        _ => 5,
    }
}
/// reference cascade: maximum of (layer, inline, specificity, application index)
fn winner(decls: &[DeclK]) -> usize {
    // application order: agent sheet, user sheet, author sheet (each in source order), inline
    let mut order: Vec<usize> = Vec::new();
    for o in 0..4u8 {
        for (i, d) in decls.iter().enumerate() {
            if d.origin == o {
                order.push(i);
            }
        }
    }
    let mut best = order[0];
    let mut bestk = (0u32, false, (0u32, 0u32, 0u32), 0usize);
    for (pos, &i) in order.iter().enumerate() {
        let d = &decls[i];
        let k = (layer(d), d.origin == 3, if d.origin == 3 { (0, 0, 0) } else { spec_key(d.spec) }, pos);
        if pos == 0 || k >= bestk {
            best = i;
            bestk = k;
        }
    }
    best
}
fn colour_of(i: usize) -> (u8, u8, u8) {
    (10 + i as u8, 20 + 2 * i as u8, 30 + 3 * i as u8)
}
fn c19_case(id: usize, decls: &[DeclK], bg: bool) -> Case {
    c19_case_pat(id, decls, bg, &[0, 1, 2, 3])
}
/// `pat[i]` = colour index used by declaration i (equal indices = equal values)
fn c19_case_pat(id: usize, decls: &[DeclK], bg: bool, pat: &[usize]) -> Case {
    let prop = if bg { "background-color" } else { "color" };
    let mut agent = String::new();
    let mut user = String::new();
    let mut author = String::new();
    let mut inline = String::new();
    for (i, d) in decls.iter().enumerate() {
        let (r, g_, b) = colour_of(pat[i]);
        // (the priority flag in its legal spellings: letter case, white space or a comment after the '!')
        const IMP: [&str; 10] = [" !important", " !important", "!important", " !IMPORTANT", " !important", " ! important", " !/**/important", " !important", " !\timportant ", "!Important"];
        let decl = format!("{}:#{:02x}{:02x}{:02x}{};", prop, r, g_, b, if d.important { IMP[(id + 3 * i) % IMP.len()] } else { "" });
        match d.origin {
            0 => agent.push_str(&format!("{}{{{}}}", sel_text(d.spec), decl)),
            1 => user.push_str(&format!("{}{{{}}}", sel_text(d.spec), decl)),
            2 => author.push_str(&format!("{}{{{}}}", sel_text(d.spec), decl)),
            _ => inline.push_str(&decl),
        }
    }
    let style_attr = if inline.is_empty() { String::new() } else { format!(" style=\"{}\"", inline) };
    let html = format!(
        "<style>{}</style><div><span>zz</span><p id=\"i\" class=\"c\"{}>tok</p><p>other</p></div>",
        author, style_attr
    );
    let mut cfg = Cfg { deco: 2, doc_css: true, ..Default::default() };
    if !agent.is_empty() {
        cfg.agent_css.push(agent);
    }
    if !user.is_empty() {
        cfg.user_css.push(user);
    }
    let w = winner(decls);
    let (r, g_, b) = colour_of(pat[w]);
    let mut c = mk_case(
        id,
        1,
        cfg,
        40,
        html.into_bytes(),
        Some(1),
        Meta::G { role: "cascade", strs: vec![format!("{:?}", decls)], nums: vec![r as i64, g_ as i64, b as i64, bg as i64] },
        if decls.len() == 2 { "pairs" } else if decls.len() == 3 { "triples" } else { "single" },
    );
    c.group = id;
    c
}
fn gen_c19(tier: &str, rng: &mut Rng) -> Vec<Case> {
    let kinds = decl_kinds();
    let mut cases = Vec::new();
    for a in &kinds {
        let id = cases.len();
        cases.push(c19_case(id, &[*a], false));
    }
    for a in &kinds {
        for b in &kinds {
            let id = cases.len();
            cases.push(c19_case(id, &[*a, *b], rng.chance(1, 4)));
        }
    }
    let ntr = if tier == "thorough" { kinds.len().pow(3) } else { 4000 };
    if tier == "thorough" {
        for a in &kinds {
            for b in &kinds {
                for c in &kinds {
                    let id = cases.len();
                    cases.push(c19_case(id, &[*a, *b, *c], false));
                }
            }
        }
    } else {
        for _ in 0..ntr {
            let t = [*rng.pick(&kinds), *rng.pick(&kinds), *rng.pick(&kinds)];
            let id = cases.len();
            cases.push(c19_case(id, &t, rng.chance(1, 4)));
        }
    }
    // triples in which two declarations carry the same value (AAB, ABA, BAA)
    let ndup = if tier == "thorough" { 30000 } else { 3000 };
    for _ in 0..ndup {
        let t = [*rng.pick(&kinds), *rng.pick(&kinds), *rng.pick(&kinds)];
        let pat: [usize; 4] = *rng.pick(&[[0, 0, 1, 3], [0, 1, 0, 3], [1, 0, 0, 3]]);
        let id = cases.len();
        let mut c = c19_case_pat(id, &t, false, &pat);
        c.slice = "triples_equal_values";
        cases.push(c);
    }
    // nearest enclosing element: a fixed nest (div > p, table > tr > td/th > em, p) in which a random
    // subset of elements is coloured through its id; every token takes the colour of the nearest
    // coloured element around it, in table cells as anywhere else
    let nn = if tier == "thorough" { 20000 } else { 1500 };
    for _ in 0..nn {
        // element k: (parent, open tag name); tokens hang below elements
        let parents: [i32; 13] = [-1, 0, 0, 2, 3, 3, 2, 6, 7, 6, 0, -1, 5];
        let html = "<div id=e0><p id=e1>tk1</p><table id=e2><tr id=e3><td id=e4>tk4</td><th id=e5>tk5 <span id=e12>tk12</span> tk13</th></tr><tr id=e6><td id=e7>tk7 <em id=e8>tk8</em> tk14</td><td id=e9>tk9</td></tr></table><p id=e10>tk10</p></div><p id=e11>tk11</p>";
        let toks: [(usize, &str); 11] = [(1, "tk1"), (4, "tk4"), (5, "tk5"), (12, "tk12"), (5, "tk13"), (7, "tk7"), (8, "tk8"), (7, "tk14"), (9, "tk9"), (10, "tk10"), (11, "tk11")];
        // colours come from a small palette half of the time, so that nested elements often win
        // the same colour (text after the inner element is still the outer element's)
        let small = rng.chance(1, 2);
        let mut col: Vec<Option<u8>> = Vec::new();
        let mut sheet = String::new();
        for k in 0..13usize {
            if rng.chance(1, 2) {
                let c = if small { 16 + rng.below(2) as u8 } else { 16 + k as u8 };
                col.push(Some(c));
                let prop = "color";
                sheet.push_str(&format!("#e{}{{{}:#0100{:02x}}}", k, prop, c));
            } else {
                col.push(None);
            }
        }
        let mut nums: Vec<i64> = Vec::new();
        let mut strs: Vec<String> = Vec::new();
        for (el, t) in toks.iter() {
            let mut e = *el as i32;
            let mut c: i64 = -1;
            while e >= 0 {
                if let Some(x) = col[e as usize] {
                    c = x as i64;
                    break;
                }
                e = parents[e as usize];
            }
            strs.push(t.to_string());
            nums.push(c);
        }
        let mut cfg = Cfg { deco: 2, ..Default::default() };
        cfg.user_css.push(sheet);
        let w = *rng.pick(&[13usize, 20, 40, 80]);
        let id = cases.len();
        cases.push(mk_case(id, 1, cfg, w, html.as_bytes().to_vec(), Some(1), Meta::G { role: "nearest", strs, nums }, "nearest_ancestor"));
    }
    // random sheets over nested documents: nearest enclosing element with a winning colour
    let nr = if tier == "thorough" { 20000 } else { 1500 };
    for _ in 0..nr {
        let (html, _) = gen_doc(rng, GenOpts { classes: true, ids: true, colours: true, tables: 1, links: false, wide: false, combining: false, ..Default::default() });
        let mut cfg = Cfg { deco: 2, doc_css: true, ..Default::default() };
        let sheet = rand_css(rng).replace("display:none", "color:#123").replace("height:0;overflow:hidden", "color:#456").replace("white-space:pre", "color:#789").replace("white-space: pre-wrap", "color:#abc");
        if rng.chance(1, 2) {
            cfg.user_css.push(sheet);
        } else {
            cfg.agent_css.push(sheet);
        }
        let w = rng.range(10, 80);
        let id = cases.len();
        cases.push(mk_case(id, 1, cfg, w, html.into_bytes(), Some(1), g("random"), "random_sheets"));
    }
    cases
}
fn check_c19(cases: &[Case], results: &[Option<RunResult>]) -> Vec<Violation> {
    let mut v = Vec::new();
    for (i, c) in cases.iter().enumerate() {
        if c.meta.role() == "nearest" {
            if let Some(r) = &results[i] {
                if r.outcome.is_ok() {
                    let cols = token_colours(&r.outcome);
                    for (t, want) in c.meta.strs().iter().zip(c.meta.nums().iter()) {
                        let want = if *want < 0 { None } else { Some((1u8, 0u8, *want as u8)) };
                        match cols.get(t.as_str()) {
                            Some((fg, _)) if *fg == want => {}
                            Some((fg, _)) => {
                                v.push(viol(i, "a token does not take the colour of its nearest coloured enclosing element", format!("sheet {:?} token {} expected {:?} got {:?}", c.spec.cfg.user_css, t, want, fg), None));
                                break;
                            }
                            None => {}
                        }
                    }
                }
            }
            continue;
        }
        if c.meta.role() != "cascade" {
            continue;
        }
        let r = match &results[i] {
            Some(r) => r,
            None => continue,
        };
        let n = c.meta.nums();
        let exp = (n[0] as u8, n[1] as u8, n[2] as u8);
        let bg = n[3] != 0;
        let cols = token_colours(&r.outcome);
        match cols.get("tok") {
            Some((fg, bgc)) => {
                let got = if bg { bgc } else { fg };
                if *got != Some(exp) {
                    v.push(viol(i, "winning declaration differs from the CSS cascade", format!("decls {} expected {:?} got {:?}", c.meta.strs()[0], exp, got), None));
                }
                if let Some((ofg, obg)) = cols.get("other") {
                    // p:nth-child(3) "other" is matched only by the element selector
                    let _ = (ofg, obg);
                }
            }
            None => v.push(viol(i, "token not rendered", format!("{}", r.outcome.kind()), None)),
        }
    }
    v
}
fn nontrivial_c19(c: &Case, r: &RunResult) -> bool {
    r.outcome.is_ok() && c.slice != "single"
}

// ======================================================================
// C20 selectors
// ======================================================================
#[derive(Clone, Debug)]
enum Simple {
    El(String),
    Class(String),
    Id(String),
    Star,
    Nth(i32, i32),
}
#[derive(Clone, Debug)]
struct SelAst {
    // compounds left to right with the combinator that precedes each (first: ' ')
    parts: Vec<(char, Vec<Simple>)>,
}
fn sel_to_text(s: &SelAst) -> String {
    let mut o = String::new();
    for (k, (comb, comp)) in s.parts.iter().enumerate() {
        if k > 0 {
            if *comb == '>' {
                o.push_str(" > ");
            } else {
                o.push(' ');
            }
        }
        for sm in comp {
            match sm {
                Simple::El(n) => o.push_str(n),
                Simple::Class(c) => {
                    o.push('.');
                    o.push_str(c)
                }
                Simple::Id(i) => {
                    o.push('#');
                    o.push_str(i)
                }
                Simple::Star => o.push('*'),
                Simple::Nth(a, b) => {
                    if *a == 2 && *b == 1 {
                        o.push_str(":nth-child(odd)")
                    } else if *a == 2 && *b == 0 {
                        o.push_str(":nth-child(even)")
                    } else if *a == 0 {
                        o.push_str(&format!(":nth-child({})", b))
                    } else if *b == 0 {
                        o.push_str(&format!(":nth-child({}n)", a))
                    } else {
                        o.push_str(&format!(":nth-child({}n{}{})", a, if *b < 0 { "-" } else { "+" }, b.abs()))
                    }
                }
            }
        }
    }
    o
}
fn rand_compound(rng: &mut Rng) -> Vec<Simple> {
    let mut v = Vec::new();
    match rng.below(6) {
        0 => v.push(Simple::El(rng.pick(&["p", "div", "li", "ul", "span", "em", "td", "blockquote"]).to_string())),
        1 => v.push(Simple::Class(rng.pick(&["ca", "cb", "cc", "Cd", "cd", "cD", "MsoNormal", "msonormal"]).to_string())),
        2 => v.push(Simple::Id(format!("{}{}", if rng.chance(1, 4) { "Id" } else { "id" }, rng.range(1, 6)))),
        3 => v.push(Simple::Star),
        4 => {
            v.push(Simple::El(rng.pick(&["p", "div", "li", "span"]).to_string()));
            v.push(Simple::Class(rng.pick(&["ca", "cb"]).to_string()));
        }
        _ => {
            if rng.chance(1, 2) {
                v.push(Simple::El(rng.pick(&["p", "li", "div", "td"]).to_string()));
            }
            v.push(Simple::Nth(rng.range(0, 10) as i32 - 5, rng.range(0, 10) as i32 - 5));
        }
    }
    v
}
fn ref_nth(a: i32, b: i32, idx: i32) -> bool {
    // exists n >= 0 with idx = a*n + b
    for n in 0..=200i32 {
        if a * n + b == idx {
            return true;
        }
        if a == 0 {
            break;
        }
    }
    false
}
fn ref_simple(s: &Simple, n: &DNode, idx: i32) -> bool {
    match (s, n) {
        (Simple::El(name), DNode::El { name: en, .. }) => name == en,
        (Simple::Class(c), _) => n.attr("class").map(|v| v.split_whitespace().any(|x| x == c)).unwrap_or(false),
        (Simple::Id(i), _) => n.attr("id") == Some(i.as_str()),
        (Simple::Star, DNode::El { .. }) => true,
        (Simple::Nth(a, b), DNode::El { .. }) => ref_nth(*a, *b, idx),
        _ => false,
    }
}
/// chain: the element and its ancestors (nearest first) with their sibling indices
fn ref_match(parts: &[(char, Vec<Simple>)], chain: &[(&DNode, i32)]) -> bool {
    if parts.is_empty() {
        return true;
    }
    if chain.is_empty() {
        return false;
    }
    let (comb, comp) = &parts[parts.len() - 1];
    let (n, idx) = chain[0];
    if !comp.iter().all(|s| ref_simple(s, n, idx)) {
        return false;
    }
    let rest = &parts[..parts.len() - 1];
    if rest.is_empty() {
        return true;
    }
    if *comb == '>' {
        ref_match(rest, &chain[1..])
    } else {
        (1..chain.len()).any(|k| ref_match(rest, &chain[k..]))
    }
}
fn gen_c20(tier: &str, rng: &mut Rng) -> Vec<Case> {
    let mut cases = Vec::new();
    // exhaustive nth-child coefficients on sibling lists of length 0..8
    for a in -5i32..=5 {
        for b in -5i32..=5 {
            let n = ((a + 5) as usize * 11 + (b + 5) as usize) % 9;
            let mut lis = String::new();
            for k in 0..n {
                lis.push_str(&format!("<li>t{}</li>", k + 1));
                if k % 3 == 1 {
                    lis.push_str("<!--c--> \n");
                }
            }
            let html = format!("<ul>{}</ul><p>pp</p>", lis);
            let sel = SelAst { parts: vec![(' ', vec![Simple::El("li".into()), Simple::Nth(a, b)])] };
            let st = sel_to_text(&sel);
            let mut cfg = Cfg { deco: 2, ..Default::default() };
            cfg.user_css.push(format!("{}{{color:#123456;}}", st));
            let id = cases.len();
            cases.push(mk_case(id, 1, cfg, 60, html.into_bytes(), Some(1), Meta::G { role: "sel", strs: vec![format!("{:?}", sel), st], nums: vec![] }, "nth_exhaustive"));
        }
    }
    let n = if tier == "thorough" { 60000 } else { 4000 };
    for k in 0..n {
        let (html, _) = gen_doc(rng, GenOpts { classes: true, ids: true, tables: 1, links: false, wide: false, combining: false, imgs: false, max_blocks: 5, ..Default::default() });
        // one case in eight: markup that the HTML parser moves (content written directly inside
        // <table>/<tr> is foster-parented in front of the table; misnested inline formatting is
        // rebuilt) - the selectors must see the tree the parser built
        let html = if k % 8 == 0 {
            rng.pick(&[
                "<div id=\"id1\"><p>qay</p><table><span class=\"ca\">qby <em>qcy</em></span><tr><td>qdy</td></tr></table></div>",
                "<div class=\"cb\"><table><tr><p class=\"ca\">qay</p><td>qby</td><span>qcy</span></tr></table><p>qdy</p></div>",
                "<ul><li>qay<table><li class=\"ca\">qby</li><tr><td><span id=\"id2\">qcy</span></td></tr></table></li><li>qdy</li></ul>",
                "<p class=\"ca\">qay<em>qby<p>qcy</em>qdy</p><div><span>qey</span></div>",
                "<div><em class=\"cb\">qay<div>qby</div>qcy</em><p id=\"id3\">qdy</p></div>",
            ])
            .to_string()
        } else {
            html
        };
        let np = rng.range(1, 4);
        let mut parts = Vec::new();
        for k in 0..np {
            parts.push((if k > 0 && rng.chance(1, 3) { '>' } else { ' ' }, rand_compound(rng)));
        }
        let sel = SelAst { parts };
        let mut st = sel_to_text(&sel);
        let mut strs = vec![format!("{:?}", sel)];
        // selector lists: union
        let mut sels = vec![sel];
        if rng.chance(1, 5) {
            let s2 = SelAst { parts: vec![(' ', rand_compound(rng))] };
            st = format!("{}, {}", st, sel_to_text(&s2));
            strs[0] = format!("{} , {:?}", strs[0], s2);
            sels.push(s2);
        }
        strs.push(st.clone());
        let mut cfg = Cfg { deco: 2, ..Default::default() };
        cfg.user_css.push(format!("{} {{ color: #123456; }}", st));
        let id = cases.len();
        let mut c = mk_case(id, 1, cfg, 80, html.into_bytes(), Some(1), Meta::G { role: "sel", strs, nums: vec![] }, "random");
        c.group = id;
        SELS.with(|m| m.borrow_mut().insert(sels_key(&c), sels));
        cases.push(c);
    }
    cases
}
/// key of a case in SELS: its sheet and document (case ids shift when corpus cases are prepended)
fn sels_key(c: &Case) -> String {
    format!("{}\u{0}{}", c.spec.cfg.user_css.first().cloned().unwrap_or_default(), String::from_utf8_lossy(&c.spec.html))
}
thread_local! {
    static SELS: std::cell::RefCell<HashMap<String, Vec<SelAst>>> = std::cell::RefCell::new(HashMap::new());
}
fn check_c20(cases: &[Case], results: &[Option<RunResult>]) -> Vec<Violation> {
    let mut v = Vec::new();
    for (i, c) in cases.iter().enumerate() {
        if c.meta.role() != "sel" && c.meta.role() != "corpus" {
            continue;
        }
        let r = match &results[i] {
            Some(r) => r,
            None => continue,
        };
        if !r.outcome.is_ok() {
            if !matches!(r.outcome, Outcome::TooNarrow) {
                v.push(viol(i, &format!("outcome {}", r.outcome.kind()), r.panic_msg.clone(), None));
            }
            continue;
        }
        let sels: Vec<SelAst> = if c.meta.role() == "corpus" {
            // the corpus replays use the selector ".cb > *" (user sheet ".cb > * { color: #123456; }")
            vec![SelAst { parts: vec![(' ', vec![Simple::Class("cb".into())]), ('>', vec![Simple::Star])] }]
        } else if c.slice == "nth_exhaustive" {
            // re-derive from the text: li:nth-child(..) is the only shape
            let st = &c.meta.strs()[1];
            let _ = st;
            let id = c.spec.id;
            let _ = id;
            // the AST was printed into strs[0]; recover a,b by search over the grid
            let mut found = None;
            for a in -5i32..=5 {
                for b in -5i32..=5 {
                    let s = SelAst { parts: vec![(' ', vec![Simple::El("li".into()), Simple::Nth(a, b)])] };
                    if format!("{:?}", s) == c.meta.strs()[0] {
                        found = Some(s);
                    }
                }
            }
            match found {
                Some(s) => vec![s],
                None => continue,
            }
        } else {
            match SELS.with(|m| m.borrow().get(&sels_key(c)).cloned()) {
                Some(s) => s,
                None => continue,
            }
        };
        let dom = dom_of(r);
        // expected coloured tokens: text tokens whose nearest... colour is inherited through the
        // annotation stack, so a token is coloured iff some ancestor element matches
        let mut expected: HashSet<String> = HashSet::new();
        let mut all: HashSet<String> = HashSet::new();
        fn go<'a>(n: &'a DNode, idx: i32, chain: &mut Vec<(&'a DNode, i32)>, inside: bool, sels: &[SelAst], expected: &mut HashSet<String>, all: &mut HashSet<String>) {
            match n {
                DNode::Text(t) => {
                    for tok in t.split_whitespace() {
                        all.insert(tok.to_string());
                        if inside {
                            expected.insert(tok.to_string());
                        }
                    }
                }
                DNode::El { kids, .. } => {
                    chain.insert(0, (n, idx));
                    let m = inside || sels.iter().any(|s| ref_match(&s.parts, chain));
                    let mut k = 0;
                    for kid in kids {
                        let ki = if matches!(kid, DNode::El { .. }) {
                            k += 1;
                            k
                        } else {
                            0
                        };
                        go(kid, ki, chain, m, sels, expected, all);
                    }
                    chain.remove(0);
                }
                _ => {}
            }
        }
        let mut chain = Vec::new();
        let mut k = 0;
        for n in &dom {
            let ki = if matches!(n, DNode::El { .. }) {
                k += 1;
                k
            } else {
                0
            };
            go(n, ki, &mut chain, false, &sels, &mut expected, &mut all);
        }
        let cols = token_colours(&r.outcome);
        let mut bad = None;
        for t in &all {
            if let Some((fg, _)) = cols.get(t) {
                let coloured = *fg == Some((0x12, 0x34, 0x56));
                if coloured != expected.contains(t) {
                    bad = Some((t.clone(), coloured));
                    break;
                }
            }
        }
        if let Some((t, coloured)) = bad {
            // known: a style on thead/tbody is dropped; it shows as an uncoloured token in a table
            // whose thead/tbody element matches
            let mut tbody_matches = false;
            {
                fn go2<'a>(n: &'a DNode, idx: i32, chain: &mut Vec<(&'a DNode, i32)>, sels: &[SelAst], hit: &mut bool) {
                    if let DNode::El { kids, .. } = n {
                        chain.insert(0, (n, idx));
                        if (n.is("tbody") || n.is("thead")) && sels.iter().any(|s| ref_match(&s.parts, chain)) {
                            *hit = true;
                        }
                        let mut k = 0;
                        for kid in kids {
                            let ki = if matches!(kid, DNode::El { .. }) {
                                k += 1;
                                k
                            } else {
                                0
                            };
                            go2(kid, ki, chain, sels, hit);
                        }
                        chain.remove(0);
                    }
                }
                let mut chain = Vec::new();
                let mut k = 0;
                for n in &dom {
                    let ki = if matches!(n, DNode::El { .. }) {
                        k += 1;
                        k
                    } else {
                        0
                    };
                    go2(n, ki, &mut chain, &sels, &mut tbody_matches);
                }
            }
            v.push(viol(
                i,
                "selector applies to a different set of elements than CSS semantics designate",
                format!("selector {:?}: token {:?} coloured={}", c.meta.strs().get(1).or(c.meta.strs().first()), t, coloured),
                if tbody_matches && !coloured { Some("tbody_style_dropped") } else { None },
            ));
        }
    }
    v
}
fn nontrivial_c20(_c: &Case, r: &RunResult) -> bool {
    token_colours(&r.outcome).values().any(|(fg, _)| fg.is_some())
}

// ======================================================================
// C17 CSS never breaks rendering; insignificant syntax
// ======================================================================
const SOUP: [&str; 52] = [
    "\u{80}", "\u{81}", "\u{a0}", "\u{7f}", "\u{fffd}", "\u{85}",
    "p", "div", ".ca", "#id1", "{", "}", ";", ":", ",", ">", "*", " ", "\n", "/*", "*/", "color", "red", "#fff", "#12345", "rgb(", ")", "1", "2n+1",
    ":nth-child(", "!important", "@media", "@import", "/", "/*/", "\"", "'", "\\", "url(", "[", "]", "(", "-", "+", ".", "0px", "50%", "background", "<!--", "-->", "e\u{301}", "中",
];
fn soup(rng: &mut Rng, n: usize) -> String {
    (0..n).map(|_| *rng.pick(&SOUP)).collect::<Vec<_>>().join("")
}
#[derive(Clone, Debug)]
struct Rule {
    sels: Vec<String>,
    decls: Vec<(String, String, bool)>,
}
fn rand_rule(rng: &mut Rng) -> Rule {
    let sels = (0..rng.range(1, 2)).map(|_| rng.pick(&["p", ".ca", "#id1", "div p", "ul > li", "li:nth-child(2n+1)", "em", "span.cb", "td", "h2"]).to_string()).collect();
    let nd = rng.range(1, 3);
    let decls = (0..nd)
        .map(|_| {
            let (p, v) = *rng.pick(&[
                ("color", "red"), ("color", "#0a0b0c"), ("color", "#abc"), ("background-color", "rgb(1,2,3)"), ("color", "navy"), ("background-color", "yellow"),
                ("color", "#ABCDEF"),
            ]);
            (p.to_string(), v.to_string(), rng.chance(1, 5))
        })
        .collect();
    Rule { sels, decls }
}
fn print_sheet(rng: &mut Rng, rules: &[Rule], style: usize) -> String {
    // style 0 canonical (minified, all semicolons); >0: random insignificant variation
    let mut o = String::new();
    let ws = |rng: &mut Rng| -> String {
        if style == 0 {
            String::new()
        } else {
            match rng.below(13) {
                0 => " ".into(),
                1 => "\n  ".into(),
                2 => "/* c */".into(),
                3 => " /*x*/\t".into(),
                4 => "/**/".into(),
                5 => "/*/ p{color:red} */".into(),
                6 => "/*** x{} ;; **/".into(),
                7 => "/*/*/".into(),
                8 => "\u{c}".into(),
                9 => "\r\n".into(),
                10 => "\r".into(),
                _ => String::new(),
            }
        }
    };
    for r in rules {
        if style > 0 && rng.chance(1, 4) {
            o.push_str(*rng.pick(&[
                "@import url(x);",
                "@import \"a\\\"b;c.css\";",
                "@import 'it\\'s;.css' screen;",
                "@media print { p { color: red; } }",
                "@charset \"utf-8\";",
                "@font-face { font-family: x; }",
                "@media (max-width: 600px) { a:hover { color: #123456 } }",
                "@media screen and (min-width:1px) { p { color: #123456 } em { color: #123456 } }",
                "@unknown (x) span { color: #123456 }",
                "@supports (display: grid) { p { color: #123456 } }",
            ]));
            o.push_str(&ws(rng));
        }
        if style > 0 && rng.chance(1, 6) {
            o.push_str(*rng.pick(&[
                "p[x=y] { color: blue; }",
                "a:hover { color: red; }",
                "p::first-line { color: red; }",
                "a[href] span { color: #123456 }",
                "li:not(.z) em { background-color: #123456 }",
                "p + p, em[title] p { color: #123456; }",
                "li:nth-child(2 of .b) { color: #123456; }",
                "p:nth-child(foo) { color: #123456 }",
                "li:nth-child() em { color: #123456; }",
                "li:nth-child(n + ) { background-color: #123456; }",
                "div:nth-of-type(2) { color: #123456; }",
            ]));
            o.push_str(&ws(rng));
        }
        o.push_str(&ws(rng));
        if style == 0 {
            o.push_str(&r.sels.join(","));
        } else {
            // white space on either side of the comma, and around the sign inside :nth-child()
            let sep = *rng.pick(&[", ", ",", " , ", " ,\n", "/**/,/**/"]);
            let nth = *rng.pick(&["2n+1", "2n + 1", "2n+ 1", "2n +1"]);
            let sels: Vec<String> = r.sels.iter().map(|x| x.replace("2n+1", nth)).collect();
            o.push_str(&sels.join(sep));
        }
        o.push_str(&ws(rng));
        o.push('{');
        for (k, (p, v, imp)) in r.decls.iter().enumerate() {
            o.push_str(&ws(rng));
            if style > 0 && rng.chance(1, 5) {
                o.push_str(*rng.pick(&["frobnicate: 12px solid;", "background-image:url(data:image/png;base64,AAA=);", "x:(a;b);", "grid-area: [a;b] 1 / 2;", "width:calc(1px + (2px * 3));", "font: 12px/1.5 \"a;b}\", serif;", "-webkit-Foo:bar(1; 2px) 50% #Ab;", "font-family: \"Jim's Font\", serif;", "font-family: 'Say \"hi\" Font';", "quotes: \"'\" \"'\";", "font-family: \"Foo \\\"Bar\\\"; x\", serif;", "content: 'it\\'s; here';", "content: \"a\\\\\";", "content: \"line\\\ncontinued; on\";", "x-junk: image-set(url(a.png) 1x; b);", "x-junk: f(g(a);b);", "x-junk: [a [b] ; c];", "x-junk: f(g(a); color: #00ff00);", "x-junk: ((a)(b);[c];d);"]));
                o.push_str(&ws(rng));
            }
            if style > 0 && k == 0 && rng.chance(1, 6) {
                // empty declarations before the first one
                o.push_str(*rng.pick(&[";", "; ;", ";/**/"]));
                o.push_str(&ws(rng));
            }
            let pn: String = if style > 0 && rng.chance(1, 3) { p.to_uppercase() } else { p.clone() };
            let vv: String = if style > 0 && v.starts_with('#') && rng.chance(1, 2) { v.to_uppercase() } else if style > 0 && v.starts_with('#') { v.to_lowercase() } else { v.clone() };
            o.push_str(&pn);
            o.push_str(&ws(rng));
            o.push(':');
            o.push_str(&ws(rng));
            o.push_str(&vv);
            if *imp {
                o.push_str(if style > 0 && rng.chance(1, 2) { " ! important" } else { " !important" });
            }
            let last = k + 1 == r.decls.len();
            if style > 0 && rng.chance(1, 3) {
                // whitespace (or a comment) between the value and the semicolon / closing brace
                o.push_str(&ws(rng));
            }
            if !last || style == 0 {
                o.push(';');
            } else {
                // the final semicolon: dropped, kept or doubled
                match rng.below(4) {
                    0 => {}
                    1 => o.push_str(";;"),
                    _ => o.push(';'),
                }
            }
        }
        o.push_str(&ws(rng));
        o.push('}');
        o.push_str(&ws(rng));
    }
    o
}
fn gen_c17(tier: &str, rng: &mut Rng) -> Vec<Case> {
    let thorough = tier == "thorough";
    let mut cases = Vec::new();
    let doc_opts = GenOpts { classes: true, ids: true, tables: 1, links: false, wide: false, combining: false, imgs: false, ..Default::default() };
    // (a) robustness: soup / truncations / random bytes as user css and as <style>
    let na = if thorough { 60000 } else { 3000 };
    for _ in 0..na {
        let s = match rng.below(4) {
            0 => {
                let k = rng.range(1, 25);
                soup(rng, k)
            }
            1 => {
                let rules: Vec<Rule> = (0..rng.range(1, 3)).map(|_| rand_rule(rng)).collect();
                let full = print_sheet(rng, &rules, 1);
                let cut = rng.below(full.len().max(1));
                full.chars().take(cut).collect()
            }
            2 => String::from_utf8_lossy(&(0..rng.range(1, 30)).map(|_| rng.below(256) as u8).collect::<Vec<u8>>()).to_string(),
            _ => {
                let k = rng.range(0, 8);
                format!("{}{}", rand_css(rng), soup(rng, k))
            }
        };
        let (html, _) = gen_doc(rng, doc_opts.clone());
        let mut cfg = Cfg { deco: 2, ..Default::default() };
        let via_style = rng.chance(1, 2);
        let html = if via_style {
            cfg.doc_css = true;
            format!("<style>{}</style>{}", s.replace("</", "<\\/"), html)
        } else {
            if rng.chance(1, 2) {
                cfg.user_css.push(s.clone());
            } else {
                cfg.agent_css.push(s.clone());
            }
            html
        };
        let id = cases.len();
        cases.push(mk_case(id, 1, cfg, rng.range(5, 80), html.into_bytes(), Some(1), Meta::G { role: "robust", strs: vec![s], nums: vec![] }, if via_style { "style_element" } else { "add_css" }));
    }
    // (b) malformed CSS in the document does not change the text
    let nb = if thorough { 20000 } else { 1000 };
    for gi in 0..nb {
        let inert: Vec<&str> = SOUP.iter().copied().filter(|t| !["color", "background"].contains(t)).collect();
        let s: String = (0..rng.range(1, 20)).map(|_| *rng.pick(&inert)).collect::<Vec<_>>().join("");
        let (html, _) = gen_doc(rng, doc_opts.clone());
        let with = format!("<style>{}</style>{}", s.replace("</", "<\\/"), html);
        let cfg = Cfg { deco: 1, doc_css: true, ..Default::default() };
        let w = rng.range(5, 80);
        for (role, h) in [("plain_doc", html), ("with_style", with)] {
            let id = cases.len();
            let mut c = mk_case(id, 0, cfg.clone(), w, h.into_bytes(), Some(0), g(role), "doc_css_ignored");
            c.group = 5_000_000 + gi;
            cases.push(c);
        }
    }
    // (b2) a malformed <style> element next to well-formed ones: each element is a sheet of its
    // own, so the malformed one changes nothing (rich output: colours included)
    let nb2 = if thorough { 20000 } else { 1500 };
    for gi in 0..nb2 {
        let inert: Vec<&str> = SOUP.iter().copied().filter(|t| !["color", "background"].contains(t)).collect();
        let bad: String = match rng.below(3) {
            0 => {
                let rules: Vec<Rule> = (0..rng.range(1, 2)).map(|_| rand_rule(rng)).collect();
                let full = print_sheet(rng, &rules, 0);
                // cut inside the first selector / before the first declaration: nothing of it applies
                let cut = rng.range(1, full.find('{').unwrap_or(1) + 1);
                full.chars().take(cut).collect()
            }
            _ => (0..rng.range(1, 12)).map(|_| *rng.pick(&inert)).collect::<Vec<_>>().join(""),
        };
        let rules: Vec<Rule> = (0..rng.range(1, 3)).map(|_| rand_rule(rng)).collect();
        let good = print_sheet(rng, &rules, 0);
        let (html, _) = gen_doc(rng, doc_opts.clone());
        let st = |x: &str| format!("<style>{}</style>", x.replace("</", "<\\/"));
        let (with, base) = match rng.below(3) {
            0 => (format!("{}{}{}", st(&bad), st(&good), html), format!("{}{}", st(&good), html)),
            1 => (format!("{}{}{}{}", st(&good), st(&bad), st(&good), html), format!("{}{}{}", st(&good), st(&good), html)),
            _ => (format!("{}<div>{}</div>{}", st(&bad), html, st(&good)), format!("<div>{}</div>{}", html, st(&good))),
        };
        let cfg = Cfg { deco: 2, doc_css: true, ..Default::default() };
        let w = rng.range(5, 80);
        for (role, h) in [("good_only", base), ("with_bad_style", with)] {
            let id = cases.len();
            let mut c = mk_case(id, 1, cfg.clone(), w, h.into_bytes(), Some(1), Meta::G { role, strs: vec![bad.clone(), good.clone()], nums: vec![] }, "doc_css_ignored");
            c.group = 5_500_000 + gi;
            cases.push(c);
        }
    }
    // (c) syntactic variants of one sheet style a document identically
    let nc = if thorough { 30000 } else { 1500 };
    for gi in 0..nc {
        let rules: Vec<Rule> = (0..rng.range(1, 4)).map(|_| rand_rule(rng)).collect();
        let (html, _) = gen_doc(rng, doc_opts.clone());
        let w = rng.range(10, 80);
        let canon = print_sheet(rng, &rules, 0);
        let nvar = 3;
        for k in 0..=nvar {
            let sheet = if k == 0 { canon.clone() } else { print_sheet(rng, &rules, k) };
            let mut cfg = Cfg { deco: 2, ..Default::default() };
            cfg.user_css.push(sheet.clone());
            let id = cases.len();
            let mut c = mk_case(id, 1, cfg, w, html.clone().into_bytes(), Some(1), Meta::G { role: if k == 0 { "canon" } else { "variant" }, strs: vec![sheet], nums: vec![] }, "variants");
            c.group = 6_000_000 + gi;
            cases.push(c);
        }
    }
    cases
}
fn check_c17(cases: &[Case], results: &[Option<RunResult>]) -> Vec<Violation> {
    let mut v = Vec::new();
    for (i, c) in cases.iter().enumerate() {
        let r = match &results[i] {
            Some(r) => r,
            None => continue,
        };
        match &r.outcome {
            Outcome::Panic(_) | Outcome::Hang | Outcome::OtherErr(_) => {
                let s = c.meta.strs().first().cloned().unwrap_or_default();
                let known = if r.panic_msg.contains("parser.rs") && s.contains("nth-child(") { Some("nth_child_integer_overflow") } else { None };
                v.push(viol(i, &format!("CSS made rendering {}", r.outcome.kind()), format!("{} css {:?}", r.panic_msg, s), known));
            }
            _ => {}
        }
    }
    for grp in groups(cases) {
        if grp.len() < 2 {
            continue;
        }
        let slice = cases[grp[0]].slice;
        if slice == "doc_css_ignored" {
            let (a, b) = (grp[0], grp[1]);
            if let (Some(ra), Some(rb)) = (&results[a], &results[b]) {
                if ra.outcome != rb.outcome {
                    v.push(viol(b, "malformed CSS in the document changed the rendering", String::new(), None));
                }
            }
        } else if slice == "variants" {
            let base = match &results[grp[0]] {
                Some(r) => r,
                None => continue,
            };
            for &k in &grp[1..] {
                if let Some(rk) = &results[k] {
                    if rk.outcome != base.outcome {
                        let sheet = &cases[k].meta.strs()[0];
                        // known: a block whose last declaration has no ';' swallows the '}'
                        let t: String = sheet.chars().filter(|c| !c.is_whitespace()).collect();
                        let mut nosemi = false;
                        let cs: Vec<char> = t.chars().collect();
                        for (p, ch) in cs.iter().enumerate() {
                            if *ch == '}' && p > 0 && cs[p - 1] != ';' && cs[p - 1] != '{' && cs[p - 1] != '/' {
                                nosemi = true;
                            }
                        }
                        v.push(viol(k, "syntactic variant of a stylesheet styles the document differently", format!("variant {:?} canonical {:?}", sheet, cases[grp[0]].meta.strs()[0]), if nosemi { Some("missing_final_semicolon_drops_sheet") } else { None }));
                        break;
                    }
                }
            }
        }
    }
    v
}
fn nontrivial_c17(c: &Case, r: &RunResult) -> bool {
    r.outcome.is_ok() && (c.slice != "variants" || token_colours(&r.outcome).values().any(|(f, b)| f.is_some() || b.is_some()))
}

// ======================================================================
// C18 display:none
// ======================================================================
fn mark_hidden(rng: &mut Rng, v: &[H], hide_prob: usize, mode: usize, hidden_ids: &mut Vec<String>, n: &mut usize) -> (Vec<H>, Vec<H>) {
    // returns (document with hiding markers, document with the hidden elements replaced by comments)
    let mut a = Vec::new();
    let mut b = Vec::new();
    for h in v {
        match h {
            H::El(name, attrs, kids) => {
                let can = !["html", "body", "br", "img"].contains(&name.as_str());
                if can && mode == 1 && rng.chance(1, 4 * hide_prob) {
                    // a display:none that LOSES the cascade to another display value on the same
                    // element: the element is shown (kept on both sides; the deleted side has no style at all)
                    let mut at = attrs.clone();
                    at.retain(|(k, _)| k != "class" && k != "style");
                    at.push(("style".into(), rng.pick(&["display:none;display:block", "display:none;display:inline", "display:block !important;display:none", "display: none; frob:1; display: table-cell", "display:inline!important;display:none;"]).to_string()));
                    let (ka, kb) = mark_hidden(rng, kids, hide_prob, mode, hidden_ids, n);
                    a.push(H::El(name.clone(), at.clone(), ka));
                    at.pop();
                    b.push(H::El(name.clone(), at, kb));
                    continue;
                }
                if can && rng.chance(1, hide_prob) {
                    *n += 1;
                    let mut at = attrs.clone();
                    at.retain(|(k, _)| k != "class" && k != "style");
                    match mode {
                        0 => at.push(("class".into(), rng.pick(&["hide", "hide hide2", "hide2\thide"]).to_string())),
                        1 => at.push(("style".into(), rng.pick(&["display:none", "display: none;", "color:#00f;display:none", "color:#00f;;display:none", "color: #00f ; ; display : none ;;", "frob:1;display:none;color:red", "display:none !important", "display:block;display:none"]).to_string())),
                        2 => {
                            // the zero-height + hidden-overflow idiom in every spelling and order
                            let h = *rng.pick(&["height:0", "height: 0px", "max-height:0", "max-height: 0em", "height:0 !important"]);
                            let o = *rng.pick(&["overflow:hidden", "overflow-y: hidden", "overflow: hidden"]);
                            let mid = *rng.pick(&["", "", "color:red;", "width:10px;", ";", " ; ;"]);
                            let st = if rng.chance(1, 2) { format!("{};{}{}", h, mid, o) } else { format!("{};{}{}", o, mid, h) };
                            at.push(("style".into(), st));
                        }
                        _ => {
                            let id = format!("hid{}", *n);
                            at.retain(|(k, _)| k != "id");
                            at.push(("id".into(), id.clone()));
                            hidden_ids.push(id);
                        }
                    }
                    a.push(H::El(name.clone(), at, kids.clone()));
                    b.push(H::Comment("h".into()));
                } else {
                    let (ka, kb) = mark_hidden(rng, kids, hide_prob, mode, hidden_ids, n);
                    let mut at = attrs.clone();
                    at.retain(|(k, v)| !(k == "class" && v == "hide"));
                    a.push(H::El(name.clone(), at.clone(), ka));
                    b.push(H::El(name.clone(), at, kb));
                }
            }
            other => {
                a.push(other.clone());
                b.push(other.clone());
            }
        }
    }
    (a, b)
}
fn strip_style(v: &[H]) -> Vec<H> {
    v.iter()
        .filter_map(|h| match h {
            H::El(n, _, _) if n == "style" => None,
            H::El(n, a, k) => {
                let mut at = a.clone();
                at.retain(|(k, _)| k != "style" && k != "color" && k != "bgcolor");
                Some(H::El(n.clone(), at, strip_style(k)))
            }
            o => Some(o.clone()),
        })
        .collect()
}
fn gen_c18(tier: &str, rng: &mut Rng) -> Vec<Case> {
    let n = if tier == "thorough" { 60000 } else { 3000 };
    let mut cases = Vec::new();
    // hiding through compound / combinator selectors over documents with repeated classes
    // (nested look-alike ancestors): checked against the model, whose matcher is proved
    let nc = if tier == "thorough" { 40000 } else { 2500 };
    for _ in 0..nc {
        let (html, _) = gen_doc(rng, GenOpts { classes: true, ids: true, tables: 1, links: true, wide: false, combining: false, imgs: false, max_depth: 4, ..Default::default() });
        let np = rng.range(2, 3);
        let mut parts = Vec::new();
        for k in 0..np {
            parts.push((if k > 0 && rng.chance(1, 3) { '>' } else { ' ' }, rand_compound(rng)));
        }
        let st = sel_to_text(&SelAst { parts: parts.clone() });
        let mut cfg = Cfg { deco: *rng.pick(&[0u8, 2]), ..Default::default() };
        cfg.user_css.push(format!("{} {{ display: none; }}", st));
        let w = rng.range(5, 100);
        let route = if cfg.deco == 2 { 1 } else { 0 };
        let id = cases.len();
        let base_cfg = Cfg { deco: cfg.deco, ..Default::default() };
        let mut c = mk_case(id, route, cfg, w, html.clone().into_bytes(), Some(route as u64), g("selector_hidden"), "compound_selectors");
        c.group = 8_000_000 + id;
        SELS.with(|m| m.borrow_mut().insert(sels_key(&c), vec![SelAst { parts: parts.clone() }]));
        cases.push(c);
        // the same document without the sheet: which tokens are rendered at all
        let mut c = mk_case(id + 1, route, base_cfg, w, html.into_bytes(), Some(route as u64), g("selector_baseline"), "compound_selectors");
        c.group = 8_000_000 + id;
        cases.push(c);
    }
    for gi in 0..n {
        let o = GenOpts { ids: true, tables: 1, links: true, dl: true, wide: false, combining: false, imgs: false, ..Default::default() };
        let (_, ast) = gen_doc(rng, o);
        let mode = rng.below(4);
        let mut ids = Vec::new();
        let mut cnt = 0;
        let (marked, deleted) = mark_hidden(rng, &ast, 6, mode, &mut ids, &mut cnt);
        let mut cfg = Cfg { deco: *rng.pick(&[0u8, 1, 2]), ..Default::default() };
        let mut cfg_plain = cfg.clone();
        match mode {
            0 => {
                let sel = *rng.pick(&[".hide", "*.hide", "div .hide, .hide"]);
                let body = *rng.pick(&["display: none;", "display:none", "color: red;; display: none", "color:red ; display:none ;;", "height: 0;; overflow: hidden", "overflow:hidden;color:red;max-height:0"]);
                let rule = format!("{} {{ {} }}", sel, body);
                if rng.chance(1, 3) {
                    // ".hide2" is carried by the same elements (see below): shown in between, hidden last
                    cfg.user_css.push(format!("{} .hide2 {{ display: block }} {}", rule, rule));
                } else {
                    cfg.user_css.push(rule);
                }
            }
            1 | 2 => {
                cfg.doc_css = true;
                cfg_plain.doc_css = true;
            }
            _ => {
                if !ids.is_empty() {
                    let sel: Vec<String> = ids.iter().map(|i| format!("#{}", i)).collect();
                    // (an earlier, or less important, display:block on the same ids loses)
                    let lose = *rng.pick(&["", "", "{S} { display: block !important; } ", "{S} { display: inline; } "]);
                    let after = *rng.pick(&["", "", " {S} { display: block; }"]);
                    cfg.user_css.push(format!("{}{} {{ display: none !important; }}{}", lose.replace("{S}", &sel.join(", ")), sel.join(", "), after.replace("{S}", &sel.join(", "))));
                }
            }
        }
        // the class sheet may also come from a <style> element anywhere in the document (head,
        // between blocks of the body, at the end): the hidden variant carries it, the deleted one
        // carries the same element with an inert rule
        let (mut marked, mut deleted) = (marked, deleted);
        if mode == 0 && rng.chance(1, 2) {
            let rule = cfg.user_css.pop().unwrap();
            cfg.doc_css = true;
            cfg_plain.doc_css = true;
            let k = rng.below(marked.len().min(deleted.len()) + 1);
            marked.insert(k, H::El("style".into(), vec![], vec![H::Text(rule)]));
            deleted.insert(k, H::El("style".into(), vec![], vec![H::Text(".nomatch{color:red}".into())]));
        }
        // inline declarations against the document's own sheet: the style attribute wins over any
        // selector of the same importance ("div.hide, p.hide ... { display:block }" in the style
        // element cannot un-hide an element hidden by its style attribute)
        if mode == 1 && rng.chance(1, 2) {
            let k = rng.below(marked.len().min(deleted.len()) + 1);
            let rule = "p, div, li, span, td, tr, table, em, strong, a, ul, ol, blockquote, h1, h2, h3, h4, h5, h6, dl, dd, dt, pre, code { display: block; }";
            marked.insert(k, H::El("style".into(), vec![], vec![H::Text(rule.into())]));
            deleted.insert(k, H::El("style".into(), vec![], vec![H::Text(rule.into())]));
        }
        // two origins: a user sheet that says the opposite with HIGHER specificity loses to the
        // document's (author) rule for normal declarations
        if mode == 0 && cfg.doc_css && rng.chance(1, 2) {
            cfg.user_css.push("div.hide, p.hide, li.hide, span.hide, td.hide, em.hide, h1.hide, h2.hide, blockquote.hide, ul.hide, ol.hide, table.hide, tr.hide, a.hide, strong.hide, code.hide, dl.hide, dd.hide, dt.hide, h3.hide, h4.hide, h5.hide, h6.hide, pre.hide { display: block; }".into());
        }
        let w = if rng.chance(1, 3) { rng.range(1, 12) } else { rng.range(1, 100) };
        let route = if cfg.deco == 2 { 1 } else { 0 };
        for (role, c_, h) in [("hidden", cfg.clone(), to_html(&marked)), ("deleted", cfg_plain.clone(), to_html(&deleted))] {
            let id = cases.len();
            let mut c = mk_case(id, route, c_, w, h.into_bytes(), Some(route as u64), g(role), ["class", "inline", "height0", "id"][mode]);
            c.group = gi;
            cases.push(c);
        }
        // styles in the document have no effect unless document CSS is enabled
        if gi % 3 == 0 {
            let with_styles = {
                let mut v = vec![H::El("style".into(), vec![], vec![H::Text("p{display:none;} .hide{color:red;} li{white-space:pre;}".into())])];
                v.extend(marked.iter().cloned());
                v
            };
            let off = Cfg { deco: cfg.deco, ..Default::default() };
            for (role, h) in [("styled_off", to_html(&with_styles)), ("stripped", to_html(&strip_style(&with_styles)))] {
                let id = cases.len();
                let mut c = mk_case(id, route, off.clone(), w, h.into_bytes(), Some(route as u64), g(role), "doc_css_off");
                c.group = 7_000_000 + gi;
                cases.push(c);
            }
        }
    }
    cases
}
fn check_c18(cases: &[Case], results: &[Option<RunResult>]) -> Vec<Violation> {
    let mut v = Vec::new();
    for grp in groups(cases) {
        if grp.len() != 2 {
            continue;
        }
        let (a, b) = (grp[0], grp[1]);
        if cases[a].slice == "compound_selectors" {
            check_c18_tokens(cases, results, a, b, &mut v);
            continue;
        }
        if let (Some(ra), Some(rb)) = (&results[a], &results[b]) {
            if ra.outcome != rb.outcome {
                if cases[a].slice == "doc_css_off" {
                    v.push(viol(a, "document styles had an effect although document CSS is off", String::new(), None));
                } else {
                    v.push(viol(a, "hidden elements are not rendered as if deleted", format!("mode {}", cases[a].slice), None));
                }
            }
        }
    }
    v
}
/// Hiding through a compound selector, judged against the declarative matcher `ref_match`
/// (the semantics Spec/Selector.v states): a token inside a matched subtree must not appear in
/// the output; a token outside every matched subtree that the document renders without the
/// sheet must still appear (only asserted without tables, where words are never cut).
fn check_c18_tokens(cases: &[Case], results: &[Option<RunResult>], a: usize, b: usize, v: &mut Vec<Violation>) {
    let (ra, rb) = match (&results[a], &results[b]) {
        (Some(x), Some(y)) => (x, y),
        _ => return,
    };
    let sels = match SELS.with(|m| m.borrow().get(&sels_key(&cases[a])).cloned()) {
        Some(s) => s,
        None => return,
    };
    let (ta, tb) = match (ra.outcome.text(), rb.outcome.text()) {
        (Some(x), Some(y)) if ra.outcome.is_ok() && rb.outcome.is_ok() => (x, y),
        _ => return,
    };
    let dom = dom_of(ra);
    let mut hidden: Vec<String> = Vec::new();
    let mut visible: Vec<String> = Vec::new();
    let mut has_table = false;
    fn go<'a>(n: &'a DNode, idx: i32, chain: &mut Vec<(&'a DNode, i32)>, inside: bool, sels: &[SelAst], hidden: &mut Vec<String>, visible: &mut Vec<String>, has_table: &mut bool) {
        match n {
            DNode::Text(t) => {
                for tok in t.split_whitespace() {
                    if inside {
                        hidden.push(tok.to_string());
                    } else {
                        visible.push(tok.to_string());
                    }
                }
            }
            DNode::El { kids, .. } => {
                if n.is("table") {
                    *has_table = true;
                }
                chain.insert(0, (n, idx));
                let m = inside || sels.iter().any(|s| ref_match(&s.parts, chain));
                let mut k = 0;
                for kid in kids {
                    let ki = if matches!(kid, DNode::El { .. }) {
                        k += 1;
                        k
                    } else {
                        0
                    };
                    go(kid, ki, chain, m, sels, hidden, visible, has_table);
                }
                chain.remove(0);
            }
            _ => {}
        }
    }
    let mut chain = Vec::new();
    let mut k = 0;
    for n in &dom {
        let ki = if matches!(n, DNode::El { .. }) {
            k += 1;
            k
        } else {
            0
        };
        go(n, ki, &mut chain, false, &sels, &mut hidden, &mut visible, &mut has_table);
    }
    // the generator's words are q<consonants>y<vowels>; adjacent inline elements may join several
    fn q_tokens(s: &str) -> HashSet<String> {
        let c: Vec<char> = s.chars().collect();
        let mut out = HashSet::new();
        let mut i = 0;
        while i < c.len() {
            if c[i] == 'q' {
                let mut j = i + 1;
                while j < c.len() && c[j].is_ascii_lowercase() && !"aeiouy".contains(c[j]) {
                    j += 1;
                }
                if j < c.len() && c[j] == 'y' && j > i + 1 {
                    j += 1;
                    while j < c.len() && "aeiou".contains(c[j]) {
                        j += 1;
                    }
                    out.insert(c[i..j].iter().collect());
                    i = j;
                    continue;
                }
            }
            i += 1;
        }
        out
    }
    let hidden: HashSet<String> = hidden.iter().flat_map(|t| q_tokens(t)).collect();
    let visible: HashSet<String> = visible.iter().flat_map(|t| q_tokens(t)).collect();
    let ta = q_tokens(&ta);
    let tb = q_tokens(&tb);
    let mut hidden: Vec<String> = hidden.into_iter().collect();
    hidden.sort();
    let mut visible_v: Vec<String> = visible.iter().cloned().collect();
    visible_v.sort();
    let vis_set = &visible;
    let visible = &visible_v;
    for t in &hidden {
        if !vis_set.contains(t.as_str()) && ta.contains(t.as_str()) {
            v.push(viol(a, "an element matched by display:none still contributes text", format!("selector {:?}: token {:?} is inside a matched subtree", cases[a].spec.cfg.user_css, t), None));
            return;
        }
    }
    if !has_table && cases[a].spec.width >= 60 {
        for t in visible {
            if tb.contains(t.as_str()) && !ta.contains(t.as_str()) {
                v.push(viol(a, "an element not matched by display:none was hidden", format!("selector {:?}: token {:?} is outside every matched subtree", cases[a].spec.cfg.user_css, t), None));
                return;
            }
        }
    }
}
fn nontrivial_c18(c: &Case, r: &RunResult) -> bool {
    (c.meta.role() == "hidden" || c.meta.role() == "selector_hidden") && r.outcome.is_ok()
}

/// C17/C19/C20 observable: the colours of every token (plus the outcome kind).
fn proj_colours(o: &Outcome) -> Outcome {
    match o {
        Outcome::Lines(_) => {
            let m = token_colours(o);
            let mut v: Vec<String> = m.iter().map(|(k, (f, b))| format!("{}:{:?}:{:?}", k, f, b)).collect();
            v.sort();
            Outcome::Str(v.join(";"))
        }
        other => other.clone(),
    }
}

pub fn prop_def4(id: &str) -> Option<PropDef> {
    match id {
        "C17" => Some(PropDef { id: "C17", generate: gen_c17, check: check_c17, nontrivial: nontrivial_c17, project: ident, deadline_ms: 20000, check_model: None }),
        "C18" => Some(PropDef { id: "C18", generate: gen_c18, check: check_c18, nontrivial: nontrivial_c18, project: ident, deadline_ms: 20000, check_model: None }),
        "C19" => Some(PropDef { id: "C19", generate: gen_c19, check: check_c19, nontrivial: nontrivial_c19, project: proj_colours, deadline_ms: 20000, check_model: None }),
        "C20" => Some(PropDef { id: "C20", generate: gen_c20, check: check_c20, nontrivial: nontrivial_c20, project: proj_colours, deadline_ms: 20000, check_model: None }),
        other => crate::props5::prop_def5(other),
    }
}
