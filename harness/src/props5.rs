//! C05 C06 (tables), C07 (prefixed blocks), C16 (custom decorators)
use crate::core::*;
use crate::dom::*;
use crate::gen::*;
use crate::pool::*;
use crate::props::*;
use crate::props2::*;
use std::collections::HashMap;

fn dom_of(r: &RunResult) -> Vec<DNode> {
    decode_dom(&r.dom_wire).unwrap_or_default()
}
fn groups(cases: &[Case]) -> Vec<Vec<usize>> {
    let mut m: HashMap<usize, Vec<usize>> = HashMap::new();
    let mut order = Vec::new();
    for (i, c) in cases.iter().enumerate() {
        let e = m.entry(c.group).or_default();
        if e.is_empty() {
            order.push(c.group);
        }
        e.push(i);
    }
    order.into_iter().map(|g| m.remove(&g).unwrap()).collect()
}

// ======================================================================
// regular tables
// ======================================================================
/// A regular table: every row tiles `cols` columns with colspans.  Returns the html and,
/// per row, the (colspan, token) list (token empty for an empty cell).
fn regular_table(rng: &mut Rng, tokn: &mut usize, allow_empty: bool, nested: bool, depth: usize) -> (String, Vec<Vec<(usize, String)>>) {
    let rows = rng.range(1, 5);
    let cols = rng.range(1, 6);
    let mut layout = Vec::new();
    let mut html = String::from("<table>");
    let use_sections = rng.chance(1, 4) && rows > 1;
    for r in 0..rows {
        if use_sections && r == 0 {
            html.push_str("<thead>");
        }
        if use_sections && r == 1 {
            html.push_str("</thead><tbody>");
        }
        html.push_str("<tr>");
        let mut row = Vec::new();
        let mut c = 0;
        // now and then a whole row of blank cells (empty, or holding only white space)
        let blank_row = allow_empty && rng.chance(1, 8);
        while c < cols {
            let span = if rng.chance(1, 4) { rng.range(1, cols - c) } else { 1 };
            let kind = if blank_row { 0 } else { rng.below(10) };
            let mut tok = String::new();
            let content = if allow_empty && kind == 0 {
                rng.pick(&["", "", " ", "&nbsp;", "\n  ", "<span> </span>"]).to_string()
            } else if nested && depth > 0 && (kind == 1 || kind == 6) {
                // (now and then with blank cells: a nested table may render as a lone rule)
                let blank_nested = allow_empty && rng.chance(1, 3);
                let (t, _) = regular_table(rng, tokn, blank_nested, false, depth - 1);
                *tokn += 1;
                tok = format!("t{}x", *tokn);
                // the nested table first (its top border collapses into the rule above),
                // last (bottom border collapses), alone, or after some text
                match rng.below(4) {
                    0 => format!("{}{}", tok, t),
                    1 => format!("{}{}", t, tok),
                    2 => {
                        tok = String::new();
                        t
                    }
                    _ => format!("{}{}{}", tok, t, "z"),
                }
            } else {
                *tokn += 1;
                tok = format!("t{}x", *tokn);
                match kind {
                    2 => format!("{} {}", tok, "word ".repeat(rng.range(1, 8)).trim_end()),
                    3 => format!("{}<br>more", tok),
                    4 => format!("{}中文字", tok),
                    5 => format!("<p>{}</p><p>para</p>", tok),
                    _ => tok.clone(),
                }
            };
            let tag = if rng.chance(1, 6) { "th" } else { "td" };
            if span > 1 {
                html.push_str(&format!("<{} colspan=\"{}\">{}</{}>", tag, span, content, tag));
            } else {
                html.push_str(&format!("<{}>{}</{}>", tag, content, tag));
            }
            row.push((span, tok));
            c += span;
        }
        html.push_str("</tr>");
        layout.push(row);
    }
    if use_sections {
        html.push_str("</tbody>");
    }
    html.push_str("</table>");
    (html, layout)
}

fn is_rule_glyph(c: char) -> bool {
    matches!(c, '─' | '┬' | '┴' | '┼')
}
fn has_up(c: char) -> bool {
    matches!(c, '│' | '┴' | '┼')
}
fn has_down(c: char) -> bool {
    matches!(c, '│' | '┬' | '┼')
}

/// the output as a grid of (char, x) cells by display column
fn grid(lines: &[String]) -> Vec<Vec<char>> {
    lines
        .iter()
        .map(|l| {
            let mut row = Vec::new();
            for ch in l.chars() {
                let w = cw(ch);
                if w == 0 {
                    continue;
                }
                row.push(ch);
                for _ in 1..w {
                    row.push('\u{0}'); // continuation column of a wide character
                }
            }
            row
        })
        .collect()
}

fn gen_tables(tier: &str, rng: &mut Rng, slice: &'static str, allow_empty: bool) -> Vec<Case> {
    let n = if tier == "thorough" { 80000 } else if tier == "half" { 2000 } else { 4000 };
    let mut cases = Vec::new();
    let mut tokn = 0usize;
    for _ in 0..n {
        let nested = rng.chance(1, 4);
        let (html, layout) = regular_table(rng, &mut tokn, allow_empty, nested, 1);
        let w = if rng.chance(1, 3) { rng.range(1, 25) } else { rng.range(1, 100) };
        let mut cfg = Cfg { deco: 1, ..Default::default() };
        if rng.chance(1, 5) {
            cfg.max_wrap = Some(*rng.pick(&[12usize, 16, 20, 30, 45, 70, 100, 150])); // (tokens are at most 8 columns: they are never cut)
        }
        if rng.chance(1, 10) {
            cfg.pad = true;
        }
        let mut strs = Vec::new();
        for row in &layout {
            strs.push(row.iter().map(|(s, t)| format!("{}:{}", s, t)).collect::<Vec<_>>().join(","));
        }
        let id = cases.len();
        cases.push(mk_case(id, 0, cfg, w, html.into_bytes(), Some(0), Meta::G { role: "table", strs, nums: vec![nested as i64] }, slice));
    }
    cases
}
fn gen_c05(tier: &str, rng: &mut Rng) -> Vec<Case> {
    let mut cases = gen_tables(tier, rng, "regular", true);
    // a spanning cell over columns that hold nothing else, beside a column with much text: the
    // spanned columns' estimates are positive but their share of the width rounds to nothing
    let n = if tier == "thorough" { 20000 } else { 1500 };
    for k in 0..n {
        let span = rng.range(2, 6);
        let tlen = rng.range(1, 2 * span);
        let text: String = "abcdefghijklmnop".chars().take(tlen).collect();
        let long = format!("s{} {}", k, "word ".repeat(rng.range(2, 12)).trim_end());
        let empties: String = (0..span).map(|_| *rng.pick(&["<td></td>", "<td></td>", "<td> </td>"])).collect();
        let rows = [format!("<tr><td colspan=\"{}\">{}</td><td>x</td></tr>", span, text), format!("<tr>{}<td>{}</td></tr>", empties, long)];
        let html = if rng.chance(1, 2) { format!("<table>{}{}</table>", rows[0], rows[1]) } else { format!("<table>{}{}</table>", rows[1], rows[0]) };
        let strs = if html.starts_with("<table><tr><td colspan") {
            vec![format!("{}:{},1:x", span, text), format!("{},1:s{}", vec!["1:"; span].join(","), k)]
        } else {
            vec![format!("{},1:s{}", vec!["1:"; span].join(","), k), format!("{}:{},1:x", span, text)]
        };
        let id = cases.len();
        cases.push(mk_case(id, 0, Cfg { deco: 1, ..Default::default() }, rng.range(7, 60), html.into_bytes(), Some(0), Meta::G { role: "table", strs, nums: vec![0] }, "span_over_empty"));
    }
    cases
}
/// Tiny tables: one- or two-letter cells (every letter unique), entirely empty columns, narrow
/// widths - the window where the side-by-side / stacked decision and the shrink loop meet.
pub fn tiny_table(rng: &mut Rng) -> (String, Vec<String>) {
    let rows = rng.range(1, 3);
    let cols = rng.range(2, 5);
    let empty_col: Vec<bool> = (0..cols).map(|_| rng.chance(2, 5)).collect();
    let mut next = 0u8;
    let mut toks = Vec::new();
    let mut html = String::from("<table>");
    for r in 0..rows {
        html.push_str("<tr>");
        let mut c = 0;
        while c < cols {
            // a run of entirely empty columns may be covered by one empty spanning cell (not in the
            // first row, so that the columns stay distinct)
            let mut run = 0;
            while c + run < cols && empty_col[c + run] {
                run += 1;
            }
            if run >= 2 && r > 0 && rng.chance(1, 2) {
                html.push_str(&format!("<td colspan=\"{}\"></td>", run));
                c += run;
                continue;
            }
            if empty_col[c] || rng.chance(1, 6) || next >= 24 {
                html.push_str("<td></td>");
            } else {
                let mut t = String::new();
                for _ in 0..rng.range(1, 2) {
                    t.push((b'a' + next) as char);
                    next += 1;
                }
                html.push_str(&format!("<td>{}</td>", t));
                toks.push(t);
            }
            c += 1;
        }
        html.push_str("</tr>");
    }
    html.push_str("</table>");
    (html, toks)
}
fn gen_c06(tier: &str, rng: &mut Rng) -> Vec<Case> {
    let mut cases = gen_tables(tier, rng, "regular_nonempty", false);
    // tables with empty cells: a cell's text starts at its column's left edge in every row
    for mut c in gen_tables(if tier == "thorough" { "thorough" } else { "half" }, rng, "regular_with_empty", true) {
        c.spec.id = cases.len();
        if let Meta::G { role, .. } = &mut c.meta {
            *role = "table_empty";
        }
        cases.push(c);
    }
    // a spanning cell whose text is at least as long as its span over columns that are otherwise
    // empty: every one of those columns has a positive share, so nothing may vanish when the table
    // is not squeezed
    let nw = if tier == "thorough" { 20000 } else { 1500 };
    for k in 0..nw {
        let span = rng.range(2, 6);
        let tlen = rng.range(span, 3 * span);
        let tok: String = "abcdefghijklmnopqrstuvwx".chars().take(tlen).collect();
        let empties: String = (0..span).map(|_| "<td></td>").collect();
        let (r0, s0) = (format!("<tr><td colspan=\"{}\">{}</td><td>z{}z</td></tr>", span, tok, k), format!("{}:{},1:z{}z", span, tok, k));
        let (r1, s1) = (format!("<tr>{}<td>y{}y</td></tr>", empties, k), format!("{},1:y{}y", vec!["1:"; span].join(","), k));
        let (html, strs) = if rng.chance(1, 2) { (format!("<table>{}{}</table>", r0, r1), vec![s0, s1]) } else { (format!("<table>{}{}</table>", r1, r0), vec![s1, s0]) };
        let natural = tlen + 8 + span;
        let mut cfg = Cfg { deco: 1, ..Default::default() };
        if rng.chance(1, 3) {
            cfg.min_wrap = Some(rng.range(1, 3));
        }
        let id = cases.len();
        cases.push(mk_case(id, 0, cfg, natural + 2 + rng.below(40), html.into_bytes(), Some(0), Meta::G { role: "table", strs, nums: vec![0] }, "wide_span_over_empty"));
    }
    // a short spanning cell which reaches over trailing columns that are empty in every row, at
    // widths that squeeze the table: no line may be wider than the width given to the table
    let nt = if tier == "thorough" { 20000 } else { 1500 };
    for k in 0..nt {
        let span = rng.range(2, 4);
        let lead = rng.range(1, 2);
        let words = ["foxtrot golf hotel", "alpha bravo", "kilo lima mike november", "tango"];
        let long = *rng.pick(&words);
        let short: String = "xyzw".chars().take(rng.range(1, span - 1)).collect();
        let mut r0 = String::from("<tr>");
        let mut r1 = String::from("<tr>");
        for j in 0..lead {
            r0.push_str(&format!("<td>p{}</td>", j));
            r1.push_str(&format!("<td>q{}</td>", j));
        }
        r0.push_str(&format!("<td colspan=\"{}\">{}</td></tr>", span, short));
        r1.push_str(&format!("<td>{}</td>{}</tr>", long, "<td></td>".repeat(span - 1)));
        let html = if rng.chance(1, 2) { format!("<table>{}{}</table>", r0, r1) } else { format!("<table>{}{}</table>", r1, r0) };
        let natural = 3 * lead + long.len() + span;
        let w = rng.range(3 * lead + 3, natural + 3);
        let cfg = Cfg { deco: if rng.chance(1, 2) { 0 } else { 1 }, ..Default::default() };
        let id = cases.len();
        let _ = k;
        cases.push(mk_case(id, 0, cfg, w, html.into_bytes(), Some(0), Meta::G { role: "table_empty", strs: vec![], nums: vec![0] }, "short_span_over_trailing_empty"));
    }
    // every row tiles the same N columns with spanning cells only (no column has a cell of its
    // own): at narrow widths each column still gets its share
    let ns = if tier == "thorough" { 20000 } else { 1500 };
    let mut tokn = 900000usize;
    for _ in 0..ns {
        let ncols = *rng.pick(&[4usize, 6, 8, 12]);
        let nrows = rng.range(2, 3);
        let mut html = String::from("<table>");
        let mut strs = Vec::new();
        for _ in 0..nrows {
            let parts: Vec<usize> = match rng.below(3) {
                0 => vec![ncols / 2, ncols - ncols / 2],
                1 if ncols % 3 == 0 => vec![ncols / 3; 3],
                _ => {
                    let mut v = Vec::new();
                    let mut left = ncols;
                    while left > 0 {
                        let s = if left <= 3 { left } else { rng.range(2, 3) };
                        v.push(s);
                        left -= s;
                    }
                    v
                }
            };
            html.push_str("<tr>");
            let mut row = Vec::new();
            for s in parts {
                tokn += 1;
                let tok = format!("t{}x", tokn);
                html.push_str(&format!("<td colspan=\"{}\">{} {}</td>", s, tok, "word ".repeat(rng.range(0, 2)).trim_end()));
                row.push(format!("{}:{}", s, tok));
            }
            html.push_str("</tr>");
            strs.push(row.join(","));
        }
        html.push_str("</table>");
        let id = cases.len();
        cases.push(mk_case(id, 0, Cfg { deco: 1, ..Default::default() }, rng.range(6, 50), html.into_bytes(), Some(0), Meta::G { role: "table", strs, nums: vec![0] }, "span_only_columns"));
    }
    let n = if tier == "thorough" { 20000 } else { 1500 };
    for _ in 0..n {
        let (html, toks) = tiny_table(rng);
        let w = rng.range(1, 12);
        let mut cfg = Cfg { deco: *rng.pick(&[0u8, 1, 3]), ..Default::default() };
        if rng.chance(1, 3) {
            cfg.no_borders = true;
        }
        let id = cases.len();
        cases.push(mk_case(id, 0, cfg, w, html.into_bytes(), Some(0), Meta::G { role: "tiny", strs: toks, nums: vec![] }, "tiny_tables"));
    }
    cases
}

fn stacked(lines: &[String]) -> bool {
    lines.iter().any(|l| !l.is_empty() && l.chars().all(|c| c == '/'))
}

/// the (colspan, token) layout of a case's table and whether a cell holds a nested table: from the
/// generator's metadata, or - for corpus cases - read off the DOM
fn table_layout(c: &Case, r: &RunResult) -> Option<(Vec<Vec<(usize, String)>>, bool)> {
    if c.meta.role() != "corpus" {
        return Some((c.meta.strs().iter().map(|row| row.split(',').map(|x| { let mut p = x.splitn(2, ':'); (p.next().unwrap().parse().unwrap(), p.next().unwrap_or("").to_string()) }).collect()).collect(), c.meta.nums().first().copied().unwrap_or(0) == 1));
    }
    let dom = dom_of(r);
    let mut table: Option<&DNode> = None;
    walk(&dom, &mut |n, _| {
        if table.is_none() && n.is("table") {
            table = Some(n);
        }
    });
    let mut rows: Vec<Vec<(usize, String)>> = Vec::new();
    let mut nested = false;
    if let Some(t) = table {
        fn collect<'a>(n: &'a DNode, rows: &mut Vec<&'a DNode>) {
            for k in n.kids() {
                if k.is("tr") {
                    rows.push(k);
                } else if k.is("thead") || k.is("tbody") {
                    collect(k, rows);
                }
            }
        }
        let mut trs = Vec::new();
        collect(t, &mut trs);
        for tr in trs {
            let mut row = Vec::new();
            for cell in tr.kids().iter().filter(|x| x.is("td") || x.is("th")) {
                let span = cell.attr("colspan").and_then(|x| x.parse::<usize>().ok()).unwrap_or(1).max(1);
                let txt: String = visible_chars(std::slice::from_ref(cell)).into_iter().collect();
                if has_element(cell.kids(), &["table"]) {
                    nested = true;
                }
                row.push((span, txt));
            }
            rows.push(row);
        }
    }
    if rows.is_empty() || rows[0].is_empty() {
        return None;
    }
    Some((rows, nested))
}
/// the recorded class: a colspan over a column that is empty in all its single-span cells
fn zero_col_under_span(layout: &[Vec<(usize, String)>]) -> bool {
    let ncols: usize = layout[0].iter().map(|x| x.0).sum();
    let mut col_has_single = vec![false; ncols];
    for row in layout {
        let mut cidx = 0;
        for (span, tok) in row {
            if *span == 1 && !tok.is_empty() && cidx < ncols {
                col_has_single[cidx] = true;
            }
            cidx += span;
        }
    }
    let has_span = layout.iter().any(|row| row.iter().any(|x| x.0 > 1));
    has_span && col_has_single.iter().any(|b| !*b)
}
fn check_c05(cases: &[Case], results: &[Option<RunResult>]) -> Vec<Violation> {
    let mut v = Vec::new();
    for (i, c) in cases.iter().enumerate() {
        if c.meta.role() != "table" && c.meta.role() != "corpus" {
            continue;
        }
        let r = match &results[i] {
            Some(r) => r,
            None => continue,
        };
        let lines = match out_lines(&r.outcome) {
            Some(l) => l,
            None => continue,
        };
        if lines.is_empty() {
            continue;
        }
        let g = grid(&lines);
        let is_stacked = stacked(&lines);
        let (layout, nested) = match table_layout(c, r) {
            Some(x) => x,
            None => continue,
        };
        let ncols: usize = layout[0].iter().map(|x| x.0).sum();
        // a colspan over a column that is empty in all its single-span cells (known A-17)
        let mut col_has_single = vec![false; ncols];
        for row in &layout {
            let mut cidx = 0;
            for (span, tok) in row {
                if *span == 1 && !tok.is_empty() {
                    col_has_single[cidx] = true;
                }
                cidx += span;
            }
        }
        let has_span = layout.iter().any(|row| row.iter().any(|x| x.0 > 1));
        let _ = (has_span, &col_has_single);
        let known = if colspan_zero_class(&dom_of(r), c.spec.width) { Some("zero_width_column_under_colspan") } else { None };
        // local junction consistency everywhere (also inside nested tables)
        let at = |y: isize, x: usize| -> char {
            if y < 0 || y as usize >= g.len() {
                return ' ';
            }
            *g[y as usize].get(x).unwrap_or(&' ')
        };
        let mut bad = None;
        'outer: for y in 0..g.len() {
            for x in 0..g[y].len() {
                let ch = g[y][x];
                if is_rule_glyph(ch) {
                    // (a bar, as the property says: a junction glyph of another rule directly above or
                    // below is not one)
                    let up = at(y as isize - 1, x) == '│';
                    let down = at(y as isize + 1, x) == '│';
                    if has_up(ch) != up || has_down(ch) != down {
                        bad = Some((y, x, ch));
                        break 'outer;
                    }
                }
            }
        }
        if let Some((y, x, ch)) = bad {
            // known: a row whose band is empty (its cells hold only nested tables that render as a
            // lone rule, which collapses into the row's own rule) still joins its bars into the
            // rules above and below: a junction glyph then faces another rule, not a bar
            let faces_rule = (has_up(ch) && is_rule_glyph(at(y as isize - 1, x))) || (has_down(ch) && is_rule_glyph(at(y as isize + 1, x)));
            let known = if faces_rule && nested { Some("junction_over_empty_band") } else { known };
            v.push(viol(i, "junction glyph does not match the bars above and below", format!("line {} column {} glyph {:?}\n{}", y, x, ch, lines.join("\n")), known));
            continue;
        }
        if is_stacked {
            // stacked form: full-width cells separated by rules: every rule ('─' or '/' line) has
            // the same width and no cell line is wider than the rules
            let rule_w: Vec<usize> = lines.iter().filter(|l| !l.is_empty() && (l.chars().all(|c| c == '/') || l.chars().all(|c| c == '─'))).map(|l| str_width(l)).collect();
            if let (Some(&w0), false) = (rule_w.first(), nested) {
                if rule_w.iter().any(|w| *w != w0) {
                    v.push(viol(i, "stacked table: rules of different widths", lines.join("\n"), known));
                } else {
                    if let Some(l) = lines.iter().find(|l| str_width(l.trim_end()) > w0) {
                        v.push(viol(i, "stacked table: a cell line is wider than the rules", format!("rules {} columns, line {:?}\n{}", w0, l, lines.join("\n")), known));
                    }
                }
            }
            continue;
        }
        // first and last lines are rules
        let first_ok = lines[0].chars().all(is_rule_glyph);
        let last_ok = lines[lines.len() - 1].chars().all(is_rule_glyph);
        if !first_ok || !last_ok {
            v.push(viol(i, "first/last line of the table is not a horizontal rule", lines.join("\n"), known));
            continue;
        }
        if ncols >= 2 && lines.iter().any(|l| l.contains('│')) {
            let w0 = g[0].len();
            if let Some(y) = (0..g.len()).find(|&y| g[y].len() != w0) {
                v.push(viol(i, "table lines have different display widths", format!("line {} has {} columns, the first {}\n{}", y, g[y].len(), w0, lines.join("\n")), known));
                continue;
            }
        }
        if !nested {
            // flat table: in each band (between full rules) bars are at the same positions
            let mut band: Option<Vec<usize>> = None;
            for y in 0..g.len() {
                let full_rule = lines[y].chars().all(is_rule_glyph) && !lines[y].is_empty();
                if full_rule {
                    band = None;
                    continue;
                }
                let bars: Vec<usize> = (0..g[y].len()).filter(|&x| g[y][x] == '│').collect();
                match &band {
                    None => band = Some(bars),
                    Some(b) => {
                        if *b != bars {
                            v.push(viol(i, "vertical bars move within a row", format!("line {}\n{}", y, lines.join("\n")), known));
                            break;
                        }
                    }
                }
            }
        }
    }
    v
}
fn nontrivial_tables(_c: &Case, r: &RunResult) -> bool {
    r.outcome.text().map(|t| t.contains('│')).unwrap_or(false)
}

fn check_c06(cases: &[Case], results: &[Option<RunResult>]) -> Vec<Violation> {
    let mut v = Vec::new();
    for (i, c) in cases.iter().enumerate() {
        if c.meta.role() == "tiny" {
            // every cell with text is rendered (side by side or stacked): each letter exactly once
            if let Some(t) = results[i].as_ref().and_then(|r| r.outcome.text()) {
                for tok in c.meta.strs() {
                    for ch in tok.chars() {
                        let k = t.chars().filter(|x| *x == ch).count();
                        if k != 1 {
                            v.push(viol(i, "a column holding text got no space (its cell is not rendered exactly once)", format!("letter {:?} appears {} times in {:?}", ch, k, t), None));
                            break;
                        }
                    }
                }
            }
            continue;
        }
        if (c.meta.role() == "table_empty" && c.meta.nums()[0] == 0) || c.meta.role() == "corpus" {
            // single-span cells of one source column start at the same x in every row in which
            // they have text (side-by-side layout only)
            if let Some(lines) = results[i].as_ref().and_then(|r| out_lines(&r.outcome)) {
                if !lines.is_empty() && !stacked(&lines) && lines[0].chars().all(is_rule_glyph) && lines.iter().any(|l| l.contains('│')) {
                    let layout = match results[i].as_ref().and_then(|r| table_layout(c, r)) {
                        Some((l, false)) => l,
                        _ => continue,
                    };
                    // (the recorded class of C05 shows here too: a column that got width 0 under a
                    // colspan makes that row one separator wider)
                    if !c.spec.cfg.overflow && c.spec.cfg.pad == false {
                        if let Some(l) = lines.iter().find(|l| str_width(l) > c.spec.width) {
                            v.push(viol(i, "a table line is wider than the width given to the table", format!("width {} line {:?}\n{}", c.spec.width, l, lines.join("\n")), None));
                            continue;
                        }
                    }
                    let known6 = if results[i].as_ref().map(|r| colspan_zero_class(&dom_of(r), c.spec.width)).unwrap_or(false) { Some("zero_width_column_under_colspan") } else { None };
                    let mut col_x: HashMap<usize, (usize, String)> = HashMap::new();
                    'rows: for row in &layout {
                        let mut cidx = 0;
                        for (span, tok) in row {
                            if *span == 1 && !tok.is_empty() {
                                for l in &lines {
                                    if let Some(bp) = l.find(tok.as_str()) {
                                        let x0 = str_width(&l[..bp]);
                                        match col_x.get(&cidx) {
                                            Some((x, t0)) if *x != x0 => {
                                                v.push(viol(i, "cells of one column do not start at the same position", format!("column {}: {} at {}, {} at {}\n{}", cidx, t0, x, tok, x0, lines.join("\n")), known6));
                                                break 'rows;
                                            }
                                            Some(_) => {}
                                            None => {
                                                col_x.insert(cidx, (x0, tok.clone()));
                                            }
                                        }
                                        break;
                                    }
                                }
                            }
                            cidx += span;
                        }
                    }
                }
            }
            continue;
        }
        if c.meta.role() != "table" || c.meta.nums()[0] != 0 {
            continue; // cell placement is checked on flat tables
        }
        let r = match &results[i] {
            Some(r) => r,
            None => continue,
        };
        let lines = match out_lines(&r.outcome) {
            Some(l) => l,
            None => continue,
        };
        if lines.is_empty() || stacked(&lines) {
            continue;
        }
        let layout: Vec<Vec<(usize, String)>> = c.meta.strs().iter().map(|row| row.split(',').map(|x| { let mut p = x.splitn(2, ':'); (p.next().unwrap().parse().unwrap(), p.next().unwrap_or("").to_string()) }).collect()).collect();
        let ncols: usize = layout[0].iter().map(|x| x.0).sum();
        let g = grid(&lines);
        if !lines[0].chars().all(is_rule_glyph) {
            continue; // a single-column table that went the stacked route has no '/' rule
        }
        // bands = runs of lines between full rules
        let mut bands: Vec<(usize, usize)> = Vec::new();
        let mut start = None;
        for y in 0..lines.len() {
            let full_rule = !lines[y].is_empty() && lines[y].chars().all(is_rule_glyph);
            if full_rule {
                if let Some(s) = start.take() {
                    bands.push((s, y));
                }
            } else if start.is_none() {
                start = Some(y);
            }
        }
        if bands.len() != layout.len() {
            v.push(viol(i, "number of row bands differs from the number of rows", format!("{} bands for {} rows\n{}", bands.len(), layout.len(), lines.join("\n")), None));
            continue;
        }
        // column boundaries: union of bar positions over all bands must give ncols-1 boundaries
        let mut bounds: Vec<usize> = Vec::new();
        for (s, e) in &bands {
            for y in *s..*e {
                for x in 0..g[y].len() {
                    if g[y][x] == '│' && !bounds.contains(&x) {
                        bounds.push(x);
                    }
                }
            }
        }
        bounds.sort();
        // effective column boundaries: positions where some row has a cell boundary
        let mut eff: Vec<usize> = Vec::new();
        for row in &layout {
            let mut cidx = 0;
            for (span, _) in row {
                cidx += span;
                if cidx < ncols && !eff.contains(&cidx) {
                    eff.push(cidx);
                }
            }
        }
        eff.sort();
        if bounds.len() != eff.len() {
            v.push(viol(i, "column boundaries are not identical in every row", format!("{} bar positions for {} column boundaries\n{}", bounds.len(), eff.len(), lines.join("\n")), None));
            continue;
        }
        let total_w = g[0].len();
        let left = |cidx: usize| if cidx == 0 { 0 } else { bounds[eff.iter().position(|e| *e == cidx).unwrap()] + 1 };
        let right = |cend: usize| if cend == ncols { total_w } else { bounds[eff.iter().position(|e| *e == cend).unwrap()] };
        for (ri, row) in layout.iter().enumerate() {
            let mut cidx = 0;
            for (span, tok) in row {
                if !tok.is_empty() {
                    let (lo, hi) = (left(cidx), right(cidx + span));
                    let mut found = false;
                    for (y, l) in lines.iter().enumerate() {
                        if let Some(bp) = l.find(tok.as_str()) {
                            let x0 = str_width(&l[..bp]);
                            let x1 = x0 + str_width(tok);
                            found = true;
                            let (bs, be) = bands[ri];
                            if y < bs || y >= be {
                                v.push(viol(i, "cell text outside its row band", format!("token {} on line {}\n{}", tok, y, lines.join("\n")), None));
                            } else if x0 < lo || x1 > hi {
                                v.push(viol(i, "cell text outside the columns it spans", format!("token {} at {}..{} expected within {}..{}\n{}", tok, x0, x1, lo, hi, lines.join("\n")), None));
                            }
                        }
                    }
                    if !found && hi >= lo + str_width(tok) {
                        v.push(viol(i, "a non-empty cell has no text in the output", format!("token {} (columns {}..{})\n{}", tok, lo, hi, lines.join("\n")), None));
                    }
                }
                cidx += span;
            }
        }
        if g[0].len() > c.spec.width || (!c.spec.cfg.overflow && lines.iter().any(|l| str_width(l) > c.spec.width)) {
            v.push(viol(i, "table wider than the width", String::new(), None));
        }
    }
    v
}

// ======================================================================
// C07 prefixes and numbering
// ======================================================================
fn gen_c07(tier: &str, rng: &mut Rng) -> Vec<Case> {
    let n = if tier == "thorough" { 60000 } else { 3000 };
    let mut cases = Vec::new();
    for gi in 0..n {
        let o = GenOpts { tables: 0, pre: rng.chance(1, 4), links: false, ids: false, imgs: false, sup: false, strike: false, br: true, dl: true, max_blocks: 3, max_depth: 2, ..Default::default() };
        let (inner, _) = gen_doc(rng, o.clone());
        let deco = *rng.pick(&[0u8, 1, 2, 3]);
        let kind = rng.below(6);
        let start: i64 = *rng.pick(&[-100i64, -10, -1, 0, 1, 9, 10, 98, 99, 999]);
        // ids / classes on the structural elements themselves must not change the text output
        let mut at = |rng: &mut Rng| -> String {
            match rng.below(4) {
                0 => format!(" id=\"w{}\"", rng.below(50)),
                1 => " class=\"ca\"".to_string(),
                _ => String::new(),
            }
        };
        let (a1, a2) = (at(rng), at(rng));
        let (outer, prefix_first, prefix_rest): (String, String, String) = match kind {
            0 => (format!("<ul{}><li{}>{}</li></ul>", a1, a2, inner), "* ".into(), "  ".into()),
            1 => (format!("<blockquote{}>{}</blockquote>", a1, inner), "> ".into(), "> ".into()),
            2 => {
                let p = format!("{}. ", start);
                (format!("<ol{} start=\"{}\"><li{}>{}</li></ol>", a1, start, a2, inner), p.clone(), " ".repeat(p.len()))
            }
            3 => (format!("<dl{}><dd{}>{}</dd></dl>", a1, a2, inner), "  ".into(), "  ".into()),
            _ => {
                // headings take inline content
                let mut gnr = Gen::new(rng, GenOpts { links: false, ids: false, imgs: false, sup: false, strike: false, br: false, ..Default::default() });
                let mut b = 8;
                let inl = to_html(&gnr.inline(1, &mut b));
                let lvl = rng.range(1, 6);
                let p = format!("{} ", "#".repeat(lvl));
                let html = format!("<h{}>{}</h{}>", lvl, inl, lvl);
                let id = cases.len();
                let w = rng.range(4, 100);
                let mut cfg = Cfg { deco, footnotes: 2, ..Default::default() };
                let (mut pf, mut pw) = if deco == 3 { (String::new(), 0) } else { (p.clone(), p.len()) };
                // one in four: a decorator of the custom family whose heading unit may be wider or
                // longer in bytes than one column: the content is wrapped at the width less the
                // DISPLAY width of the marker
                if rng.chance(1, 4) {
                    let custom = rand_custom(rng);
                    pf = format!("{} ", custom[12].repeat(lvl));
                    pw = str_width(&pf);
                    cfg.deco = 4;
                    cfg.custom = custom;
                }
                let mut c1 = mk_case(id, 0, cfg.clone(), w, html.into_bytes(), Some(0), Meta::G { role: "outer", strs: vec![pf.clone(), pf], nums: vec![] }, "heading");
                c1.group = gi;
                cases.push(c1);
                let id = cases.len();
                let mut c2 = mk_case(id, 0, cfg, w.saturating_sub(pw), format!("<p>{}</p>", inl).into_bytes(), Some(0), g("inner"), "heading");
                c2.group = gi;
                cases.push(c2);
                continue;
            }
        };
        let (mut pf, mut pr) = if deco == 3 {
            if kind == 3 { ("  ".to_string(), "  ".to_string()) } else { (String::new(), String::new()) }
        } else {
            (prefix_first, prefix_rest)
        };
        let w = rng.range(4, 100);
        let mut cfg = Cfg { deco, footnotes: 2, ..Default::default() };
        // one in five: a decorator of the custom family (bullets and quote marks of one, two or
        // three columns, some of them a single wide character): the indentation of later lines is
        // the DISPLAY width of the marker
        if kind <= 2 && rng.chance(1, 5) {
            let custom = rand_custom(rng);
            match kind {
                0 => {
                    pf = custom[14].clone();
                    pr = " ".repeat(str_width(&custom[14]));
                }
                1 => {
                    pf = custom[13].clone();
                    pr = custom[13].clone();
                }
                _ => {
                    pf = format!("{}{}", start, custom[15]);
                    pr = " ".repeat(str_width(&pf));
                }
            }
            cfg.deco = 4;
            cfg.custom = custom;
        }
        let id = cases.len();
        let mut c1 = mk_case(id, 0, cfg.clone(), w, outer.into_bytes(), Some(0), Meta::G { role: "outer", strs: vec![pf.clone(), pr], nums: vec![] }, ["ul", "blockquote", "ol", "dd", "h", "h"][kind]);
        c1.group = gi;
        cases.push(c1);
        let id = cases.len();
        let mut c2 = mk_case(id, 0, cfg, w.saturating_sub(str_width(&pf)), inner.into_bytes(), Some(0), g("inner"), ["ul", "blockquote", "ol", "dd", "h", "h"][kind]);
        c2.group = gi;
        cases.push(c2);
    }
    // ordered lists of 2-4 items with content of several lines: every item is its content rendered
    // alone at width - (widest marker), first line behind its own padded marker, later lines
    // behind blanks of the common width
    let n2 = if tier == "thorough" { 20000 } else { 1500 };
    for gi in 0..n2 {
        let o = GenOpts { tables: 0, links: false, ids: false, imgs: false, sup: false, strike: false, max_blocks: 2, max_depth: 1, ..Default::default() };
        let start = *rng.pick(&[8i64, 9, 98, 99, 999, -1, -10, 1, 7]);
        let nitems = rng.range(2, 4);
        let inners: Vec<String> = (0..nitems).map(|_| gen_doc(rng, o.clone()).0).collect();
        let prefixes: Vec<String> = (0..nitems).map(|k| format!("{}. ", start + k as i64)).collect();
        let maxw = prefixes.iter().map(|p| p.len()).max().unwrap();
        let outer = format!("<ol start=\"{}\">{}</ol>", start, inners.iter().map(|x| format!("<li>{}</li>", x)).collect::<String>());
        let mut strs = vec![maxw.to_string()];
        strs.extend(prefixes.iter().cloned());
        let deco = *rng.pick(&[0u8, 1, 2]);
        let cfg = Cfg { deco, footnotes: 2, ..Default::default() };
        let w = rng.range(8, 60);
        let id = cases.len();
        let mut c1 = mk_case(id, 0, cfg.clone(), w, outer.into_bytes(), Some(0), Meta::G { role: "outer_items", strs, nums: vec![] }, "ol_items");
        c1.group = 5_000_000 + gi;
        cases.push(c1);
        for inner in inners {
            let id = cases.len();
            let mut c2 = mk_case(id, 0, cfg.clone(), w.saturating_sub(maxw), inner.into_bytes(), Some(0), g("inner"), "ol_items");
            c2.group = 5_000_000 + gi;
            cases.push(c2);
        }
    }
    // numbering: n short items from `start`
    let nn = if tier == "thorough" { 20000 } else { 1500 };
    for _ in 0..nn {
        let start: i64 = *rng.pick(&[-100i64, -12, -10, -9, -1, 0, 1, 2, 8, 9, 10, 95, 98, 99, 100, 995, 999]);
        let absent = rng.chance(1, 5);
        let nitems = rng.range(1, 15);
        let ida = if rng.chance(1, 3) { format!(" id=\"n{}\"", rng.below(50)) } else { String::new() };
        let mut html = if absent { format!("<ol{}>", ida) } else { format!("<ol{} start=\"{}\">", ida, start) };
        // some items render nothing: they still take their number
        let mut empties: Vec<i64> = Vec::new();
        for k in 0..nitems {
            if nitems > 1 && rng.chance(1, 10) {
                html.push_str(*rng.pick(&["<li></li>", "<li><!--c--></li>", "<li><span></span></li>", "<li><p></p></li>"]));
                empties.push(1);
                continue;
            }
            empties.push(0);
            if rng.chance(1, 8) {
                html.push_str(&format!("<li id=\"i{}\">item{}</li>", k, k));
            } else {
                html.push_str(&format!("<li>item{}</li>", k));
            }
        }
        html.push_str("</ol>");
        let deco = *rng.pick(&[0u8, 1, 2]);
        let id = cases.len();
        cases.push(mk_case(id, 0, Cfg { deco, ..Default::default() }, rng.range(12, 100), html.into_bytes(), Some(0), Meta::G { role: "numbering", strs: vec![], nums: { let mut v = vec![if absent { 1 } else { start }, nitems as i64]; v.extend(empties.iter()); v } }, "numbering"));
    }
    cases
}
fn check_c07(cases: &[Case], results: &[Option<RunResult>]) -> Vec<Violation> {
    let mut v = Vec::new();
    for grp in groups(cases) {
        if grp.len() >= 3 && cases[grp[0]].meta.role() == "outer_items" {
            let a = grp[0];
            let outer = match results[a].as_ref().and_then(|r| out_lines(&r.outcome)) {
                Some(l) => l,
                None => continue,
            };
            let strs = cases[a].meta.strs();
            let maxw: usize = strs[0].parse().unwrap();
            let mut expect: Vec<String> = Vec::new();
            let mut ok = true;
            for (k, &b) in grp[1..].iter().enumerate() {
                match results[b].as_ref().and_then(|r| out_lines(&r.outcome)) {
                    Some(inner) => {
                        let pf = &strs[1 + k];
                        let padded = format!("{}{}", pf, " ".repeat(maxw - pf.len()));
                        for (j, l) in inner.iter().enumerate() {
                            expect.push(format!("{}{}", if j == 0 { padded.clone() } else { " ".repeat(maxw) }, l));
                        }
                    }
                    None => {
                        ok = false;
                        break;
                    }
                }
            }
            if !ok {
                continue;
            }
            let norm = |v: &Vec<String>| v.iter().map(|l| l.trim_end().to_string()).collect::<Vec<_>>();
            if norm(&expect) != norm(&outer) {
                v.push(viol(a, "ordered-list items are not their content behind a marker padded to the common width", format!("markers {:?}: expected {:?} got {:?}", &strs[1..], expect, outer), None));
            }
            continue;
        }
        if grp.len() == 2 {
            let (a, b) = (grp[0], grp[1]);
            let (ra, rb) = match (&results[a], &results[b]) {
                (Some(x), Some(y)) => (x, y),
                _ => continue,
            };
            if cases[a].meta.role() != "outer" {
                continue;
            }
            let outer = match out_lines(&ra.outcome) {
                Some(l) => l,
                None => continue, // the outer rendering did not succeed: nothing is claimed
            };
            let inner = match out_lines(&rb.outcome) {
                Some(l) => l,
                None => {
                    v.push(viol(a, "nested content renders although it does not render standalone at the narrower width", format!("inner {}", rb.outcome.kind()), None));
                    continue;
                }
            };
            let pf = &cases[a].meta.strs()[0];
            let pr = &cases[a].meta.strs()[1];
            let expect: Vec<String> = inner.iter().enumerate().map(|(k, l)| format!("{}{}", if k == 0 { pf } else { pr }, l)).collect();
            // (exact: a blank line of the content still carries the prefix column)
            if expect != outer {
                v.push(viol(a, "block is not its content rendered at the narrower width with a prefix on every line", format!("{} expected {:?} got {:?}", cases[a].slice, expect, outer), None));
            }
        } else if grp.len() == 1 {
            let i = grp[0];
            if cases[i].meta.role() != "numbering" {
                continue;
            }
            let r = match &results[i] {
                Some(r) => r,
                None => continue,
            };
            let lines = match out_lines(&r.outcome) {
                Some(l) => l,
                None => continue,
            };
            let start = cases[i].meta.nums()[0];
            let n = cases[i].meta.nums()[1];
            let width = (start..start + n).map(|k| format!("{}. ", k).len()).max().unwrap_or(0);
            let empties = &cases[i].meta.nums()[2..];
            let expect: Vec<String> = (0..n).filter(|k| empties.get(*k as usize).copied().unwrap_or(0) == 0).map(|k| format!("{:<w$}item{}", format!("{}. ", start + k), k, w = width)).collect();
            if lines != expect {
                v.push(viol(i, "ordered items are not numbered consecutively from start with a common marker width", format!("expected {:?} got {:?}", expect, lines), None));
            }
        }
    }
    v
}
fn nontrivial_c07(c: &Case, r: &RunResult) -> bool {
    (c.meta.role() == "outer" || c.meta.role() == "numbering") && out_lines(&r.outcome).map(|l| l.len() >= 2).unwrap_or(false)
}

// ======================================================================
// C16 custom decorators
// ======================================================================
const AFFIX: [&str; 9] = ["", "*", "_", "<<", "§", "•", "│", "）", "〖"];
const PREFIX: [&str; 9] = ["> ", "| ", "§ ", "│ ", "• ", "- ", "〖", "", "） "];
fn rand_custom(rng: &mut Rng) -> Vec<String> {
    let mut v: Vec<String> = Vec::new();
    for _ in 0..12 {
        v.push(rng.pick(&AFFIX).to_string());
    }
    v.push(rng.pick(&["#", "=", "§", "〖"]).to_string()); // heading unit
    v.push(rng.pick(&PREFIX).to_string()); // quote
    v.push(rng.pick(&PREFIX).to_string()); // bullet
    v.push(rng.pick(&[". ", ") ", "） ", "§ ", ""]).to_string()); // ordered suffix
    v
}
fn gen_c16(tier: &str, rng: &mut Rng) -> Vec<Case> {
    let n = if tier == "thorough" { 60000 } else { 3000 };
    let mut cases = Vec::new();
    for gi in 0..n {
        let custom = rand_custom(rng);
        let cfg = Cfg { deco: 4, custom: custom.clone(), ..Default::default() };
        let w = rng.range(4, 80);
        if rng.chance(1, 2) {
            // whole documents: no panic, width bound, affixes verbatim
            let (html, _) = gen_doc(rng, GenOpts { tables: 1, links: true, imgs: true, strike: true, dl: true, ..Default::default() });
            let id = cases.len();
            cases.push(mk_case(id, 0, cfg, w, html.into_bytes(), Some(0), Meta::G { role: "doc", strs: custom, nums: vec![] }, "documents"));
        } else {
            // compositionality with the display width of the prefix
            let o = GenOpts { tables: 0, links: false, ids: false, imgs: false, sup: false, strike: false, max_blocks: 2, max_depth: 1, ..Default::default() };
            let (inner, _) = gen_doc(rng, o);
            let kind = rng.below(3);
            let start = *rng.pick(&[1i64, 9, 99, -5]);
            let (outer, pf, pr) = match kind {
                0 => (format!("<ul><li>{}</li></ul>", inner), custom[14].clone(), " ".repeat(str_width(&custom[14]))),
                1 => (format!("<blockquote>{}</blockquote>", inner), custom[13].clone(), custom[13].clone()),
                _ => {
                    let p = format!("{}{}", start, custom[15]);
                    (format!("<ol start=\"{}\"><li>{}</li></ol>", start, inner), p.clone(), " ".repeat(str_width(&p)))
                }
            };
            let id = cases.len();
            let mut c1 = mk_case(id, 0, cfg.clone(), w, outer.into_bytes(), Some(0), Meta::G { role: "outer", strs: vec![pf.clone(), pr], nums: vec![] }, ["ul", "blockquote", "ol"][kind]);
            c1.group = gi;
            cases.push(c1);
            let id = cases.len();
            let mut c2 = mk_case(id, 0, cfg, w.saturating_sub(str_width(&pf)), inner.into_bytes(), Some(0), g("inner"), ["ul", "blockquote", "ol"][kind]);
            c2.group = gi;
            cases.push(c2);
        }
    }
    // inline elements - some of them empty - in one paragraph: the affixes surround exactly the
    // element text, also when there is none
    let n3 = if tier == "thorough" { 20000 } else { 1500 };
    for _ in 0..n3 {
        let custom = rand_custom(rng);
        let cfg = Cfg { deco: 4, custom: custom.clone(), ..Default::default() };
        let mut html = String::from("<p>");
        let mut expect = String::new();
        let nseg = rng.range(2, 6);
        for k in 0..nseg {
            let word = format!("w{}x", k);
            let text = if rng.chance(1, 3) { String::new() } else { word.clone() };
            let (tag, si, ei, struck): (&str, usize, usize, bool) = match rng.below(6) {
                0 => ("em", 2, 3, false),
                1 => ("i", 2, 3, false),
                2 => ("strong", 4, 5, false),
                3 => ("s", 6, 7, true),
                4 => ("code", 8, 9, false),
                _ => ("", 0, 0, false),
            };
            if tag.is_empty() {
                html.push_str(&word);
                expect.push_str(&word);
            } else {
                html.push_str(&format!("<{}>{}</{}>", tag, text, tag));
                expect.push_str(&custom[si]);
                for ch in text.chars() {
                    expect.push(ch);
                    if struck {
                        expect.push('\u{336}');
                    }
                }
                expect.push_str(&custom[ei]);
            }
            html.push(' ');
        }
        html.push_str("end</p>");
        expect.push_str("end");
        let id = cases.len();
        cases.push(mk_case(id, 0, cfg, rng.range(30, 80), html.into_bytes(), Some(0), Meta::G { role: "inline_affixes", strs: vec![expect], nums: vec![] }, "inline_affixes"));
    }
    // definition lists: a term is the emphasised text on a line of its own, a definition is indented
    let n4 = if tier == "thorough" { 10000 } else { 800 };
    for _ in 0..n4 {
        let custom = rand_custom(rng);
        let cfg = Cfg { deco: 4, custom: custom.clone(), ..Default::default() };
        let mut html = String::new();
        let mut expect: Vec<String> = Vec::new();
        match rng.below(3) {
            0 => html.push_str("<p>before</p>"),
            1 => html.push_str("before"),
            _ => {}
        }
        html.push_str("<dl>");
        for k in 0..rng.range(1, 3) {
            let term = format!("t{}m", k);
            let inner = match rng.below(3) {
                0 => (format!("<strong>{}</strong>", term), format!("{}{}{}", custom[4], term, custom[5])),
                _ => (term.clone(), term.clone()),
            };
            html.push_str(&format!("<dt>{}</dt>", inner.0));
            expect.push(format!("{}{}{}", custom[2], inner.1, custom[3]));
            if rng.chance(2, 3) {
                html.push_str(&format!("<dd>d{}f</dd>", k));
                expect.push(format!("  d{}f", k));
            }
        }
        html.push_str("</dl>");
        let id = cases.len();
        cases.push(mk_case(id, 0, cfg, rng.range(30, 80), html.into_bytes(), Some(0), Meta::G { role: "dl_lines", strs: expect, nums: vec![] }, "dl_lines"));
    }
    // ordered lists whose markers differ in length (9 -> 10, 99 -> 100, ...): every item is padded
    // to the display width of the widest marker and its content wrapped to what is left
    let n2 = if tier == "thorough" { 20000 } else { 1000 };
    for gi in 0..n2 {
        let custom = rand_custom(rng);
        let cfg = Cfg { deco: 4, custom: custom.clone(), ..Default::default() };
        let w = rng.range(8, 80);
        let o = GenOpts { tables: 0, links: false, ids: false, imgs: false, sup: false, strike: false, max_blocks: 2, max_depth: 1, ..Default::default() };
        let start = *rng.pick(&[8i64, 9, 98, 99, 999, -1, -10, 1]);
        let nitems = rng.range(2, 3);
        let inners: Vec<String> = (0..nitems).map(|k| if k > 0 && rng.chance(1, 6) { rng.pick(&["", " ", "<span id=\"e\"></span>", "<!--c-->"]).to_string() } else { gen_doc(rng, o.clone()).0 }).collect();
        let prefixes: Vec<String> = (0..nitems).map(|k| format!("{}{}", start + k as i64, custom[15])).collect();
        let maxw = prefixes.iter().map(|p| str_width(p)).max().unwrap();
        let outer = format!("<ol start=\"{}\">{}</ol>", start, inners.iter().map(|x| format!("<li>{}</li>", x)).collect::<String>());
        let mut strs = vec![maxw.to_string()];
        strs.extend(prefixes.iter().cloned());
        let id = cases.len();
        let mut c1 = mk_case(id, 0, cfg.clone(), w, outer.into_bytes(), Some(0), Meta::G { role: "outer_items", strs, nums: vec![] }, "ol_items");
        c1.group = 5_000_000 + gi;
        cases.push(c1);
        for inner in inners {
            let id = cases.len();
            let mut c2 = mk_case(id, 0, cfg.clone(), w.saturating_sub(maxw), inner.into_bytes(), Some(0), g("inner"), "ol_items");
            c2.group = 5_000_000 + gi;
            cases.push(c2);
        }
    }
    // the trivial decorator produces nothing but document text, white space and table borders
    let n5 = if tier == "thorough" { 20000 } else { 1500 };
    for _ in 0..n5 {
        let tables = rng.chance(1, 3);
        let o = GenOpts { tables: if tables { 1 } else { 0 }, links: true, imgs: true, strike: false, sup: true, dl: true, pre: true, br: true, ..Default::default() };
        let (html, _) = gen_doc(rng, o);
        let cfg = Cfg { deco: 3, strike: 2, ..Default::default() };
        let id = cases.len();
        cases.push(mk_case(id, 0, cfg, rng.range(4, 80), html.into_bytes(), Some(0), g("trivial"), "trivial"));
    }
    cases
}
fn check_c16(cases: &[Case], results: &[Option<RunResult>]) -> Vec<Violation> {
    let mut v = Vec::new();
    for (i, c) in cases.iter().enumerate() {
        let r = match &results[i] {
            Some(r) => r,
            None => continue,
        };
        match &r.outcome {
            Outcome::Panic(_) | Outcome::Hang | Outcome::OtherErr(_) => {
                v.push(viol(i, &format!("custom decorator made rendering {}", r.outcome.kind()), r.panic_msg.clone(), None));
                continue;
            }
            _ => {}
        }
        if !r.regular {
            continue;
        }
        if let Some(lines) = out_lines(&r.outcome) {
            for l in &lines {
                if str_width(l) > c.spec.width {
                    v.push(viol(i, "line wider than the width with a custom decorator", format!("width {} line {:?}", c.spec.width, l), None));
                    break;
                }
            }
            if c.meta.role() == "inline_affixes" {
                let got: String = lines.join("\n").chars().filter(|ch| !ch.is_whitespace()).collect();
                let want: String = c.meta.strs()[0].chars().filter(|ch| !ch.is_whitespace()).collect();
                if got != want {
                    v.push(viol(i, "decorator affixes do not surround exactly the element text", format!("wanted {:?} got {:?}", want, got), None));
                }
            }
            if c.meta.role() == "trivial" {
                let dom = dom_of(r);
                if crate::props3::c03_known(&dom).is_none() {
                    let has_table = has_element(&dom, &["table"]);
                    let border = |ch: &char| has_table && (matches!(*ch, '─' | '│' | '┬' | '┴' | '┼') || *ch == '/');
                    let mut want: Vec<char> = visible_chars_strict(&dom).into_iter().filter(|ch| !border(ch)).collect();
                    let mut got: Vec<char> = lines.join("\n").chars().filter(|ch| !ch.is_whitespace()).filter(|ch| !border(ch)).collect();
                    if has_table {
                        want.sort();
                        got.sort();
                    }
                    if want != got {
                        // known: <sup> is marked up by the renderer itself (^{..}, or superscript digits
                        // for a digits-only text), whatever the decorator
                        let known = if has_element(&dom, &["sup"]) { Some("trivial_sup_markup") } else { None };
                        v.push(viol(i, "trivial decorator: output is more than document text, white space and borders", format!("wanted {:?} got {:?}", want.iter().take(60).collect::<String>(), got.iter().take(60).collect::<String>()), known));
                    }
                }
            }
            if c.meta.role() == "dl_lines" {
                // every expected line occurs, in order, as a whole line
                let mut k = 0usize;
                for want in c.meta.strs() {
                    match lines[k..].iter().position(|l| l.trim_end() == want.trim_end()) {
                        Some(p) => k += p + 1,
                        None => {
                            v.push(viol(i, "definition list: term / definition line is not affix + text + affix on one line", format!("wanted line {:?} in {:?}", want, lines), None));
                            break;
                        }
                    }
                }
            }
            if c.meta.role() == "doc" {
                // em affixes surround exactly the element's text (single-line check on unique tokens)
                let custom = c.meta.strs();
                let dom = dom_of(r);
                // whitespace-free view: a word (with its affixes) may be wrapped
                let text: String = lines.join("\n").chars().filter(|ch| !ch.is_whitespace()).collect();
                let plain_flow = !has_element(&dom, &["table", "ul", "ol", "blockquote", "h1", "h2", "h3", "h4", "h5", "h6", "pre"]);
                let strike_on = c.spec.cfg.strike != 2;
                walk(&dom, &mut |n, anc| {
                    // (start, end, struck) of the element kinds with affixes
                    let kind: Option<(usize, usize, bool)> = if n.is("em") || n.is("i") {
                        Some((2, 3, false))
                    } else if n.is("strong") {
                        Some((4, 5, false))
                    } else if n.is("s") || n.is("del") {
                        Some((6, 7, true))
                    } else if n.is("code") {
                        Some((8, 9, false))
                    } else {
                        None
                    };
                    // only where no other element's strikeout or affixes interfere
                    let clean = !anc.iter().any(|a| a.is("pre") || a.is("s") || a.is("del") || a.is("sup") || a.is("a"));
                    if let (Some((si, ei, struck)), true) = (kind, clean) {
                        if let [DNode::Text(t)] = n.kids() {
                            let toks: Vec<&str> = t.split_whitespace().collect();
                            if toks.len() == 1 && !t.starts_with(char::is_whitespace) && !t.ends_with(char::is_whitespace) {
                                let body: String = if struck && strike_on {
                                    toks[0].chars().flat_map(|ch| if cw(ch) > 0 { vec![ch, '\u{336}'] } else { vec![ch] }).collect()
                                } else {
                                    toks[0].to_string()
                                };
                                let want = format!("{}{}{}", custom[si], body, custom[ei]);
                                let want_ns: String = want.chars().filter(|ch| !ch.is_whitespace()).collect();
                                // verbatim: the suffix must not be followed by a strike mark of its own
                                let verbatim = text.match_indices(&want_ns).any(|(p, m)| custom[ei].is_empty() || !text[p + m.len()..].starts_with('\u{336}'));
                                if plain_flow && text.contains(&body) && !verbatim {
                                    v.push(viol(i, "decorator affixes are not verbatim around the element", format!("wanted {:?}", want), None));
                                }
                            }
                        }
                    }
                });
            }
        }
    }
    for grp in groups(cases) {
        if grp.len() >= 3 && cases[grp[0]].meta.role() == "outer_items" {
            let a = grp[0];
            let ra = match &results[a] {
                Some(x) => x,
                None => continue,
            };
            let outer = match out_lines(&ra.outcome) {
                Some(l) => l,
                None => continue,
            };
            let strs = cases[a].meta.strs();
            let maxw: usize = strs[0].parse().unwrap();
            let mut expect: Vec<String> = Vec::new();
            let mut ok = true;
            for (k, &b) in grp[1..].iter().enumerate() {
                let inner = match results[b].as_ref().and_then(|r| out_lines(&r.outcome)) {
                    Some(l) => l,
                    None => {
                        ok = false;
                        break;
                    }
                };
                let pf = &strs[1 + k];
                let padded = format!("{}{}", pf, " ".repeat(maxw - str_width(pf)));
                for (j, l) in inner.iter().enumerate() {
                    expect.push(format!("{}{}", if j == 0 { padded.clone() } else { " ".repeat(maxw) }, l));
                }
                // an item without content prints nothing, but keeps its number
            }
            if !ok {
                continue;
            }
            let norm = |v: &Vec<String>| v.iter().map(|l| l.trim_end().to_string()).collect::<Vec<_>>();
            if norm(&expect) != norm(&outer) {
                v.push(viol(a, "ordered-list items are not padded to the widest marker's display width", format!("markers {:?}: expected {:?} got {:?}", &strs[1..], expect, outer), None));
            }
            continue;
        }
        if grp.len() != 2 {
            continue;
        }
        let (a, b) = (grp[0], grp[1]);
        if cases[a].meta.role() != "outer" {
            continue;
        }
        let (ra, rb) = match (&results[a], &results[b]) {
            (Some(x), Some(y)) => (x, y),
            _ => continue,
        };
        let outer = match out_lines(&ra.outcome) {
            Some(l) => l,
            None => continue,
        };
        let inner = match out_lines(&rb.outcome) {
            Some(l) => l,
            None => continue,
        };
        let pf = &cases[a].meta.strs()[0];
        let pr = &cases[a].meta.strs()[1];
        let expect: Vec<String> = inner.iter().enumerate().map(|(k, l)| format!("{}{}", if k == 0 { pf } else { pr }, l)).collect();
        let norm = |v: &Vec<String>| v.iter().map(|l| l.trim_end().to_string()).collect::<Vec<_>>();
        if norm(&expect) != norm(&outer) {
            v.push(viol(a, "content is not wrapped to the width minus the prefix's display width", format!("{} prefix {:?}: expected {:?} got {:?}", cases[a].slice, pf, expect, outer), None));
        }
    }
    v
}
fn nontrivial_c16(c: &Case, r: &RunResult) -> bool {
    c.meta.role() != "inner" && out_lines(&r.outcome).map(|l| l.len() >= 2).unwrap_or(false) && c.spec.cfg.custom.iter().any(|s| !s.is_ascii())
}

pub fn prop_def5(id: &str) -> Option<PropDef> {
    match id {
        "C05" => Some(PropDef { id: "C05", generate: gen_c05, check: check_c05, nontrivial: nontrivial_tables, project: ident, deadline_ms: 20000, check_model: None }),
        "C06" => Some(PropDef { id: "C06", generate: gen_c06, check: check_c06, nontrivial: nontrivial_tables, project: ident, deadline_ms: 20000, check_model: None }),
        "C07" => Some(PropDef { id: "C07", generate: gen_c07, check: check_c07, nontrivial: nontrivial_c07, project: ident, deadline_ms: 20000, check_model: None }),
        "C16" => Some(PropDef { id: "C16", generate: gen_c16, check: check_c16, nontrivial: nontrivial_c16, project: ident, deadline_ms: 20000, check_model: None }),
        _ => None,
    }
}
