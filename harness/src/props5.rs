//! further properties (filled in progressively)
use crate::props::*;
pub fn prop_def5(_id: &str) -> Option<PropDef> {
    None
}
