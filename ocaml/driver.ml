(* driver.ml -- runs the extracted model on harness cases.
   stdin/infile: one case per line:  <id> <int> <int> ...
   output:       <id> <int> <int> ...     (model outcome)            *)
open Model

let rec pos_of_int (n : int) : positive =
  if n = 1 then XH
  else if n land 1 = 0 then XO (pos_of_int (n lsr 1))
  else XI (pos_of_int (n lsr 1))

let n_of_int (n : int) : n = if n = 0 then N0 else Npos (pos_of_int n)

(* decimal string -> N, for values beyond max_int (e.g. usize::MAX) *)
let n_of_string (s : string) : n =
  match int_of_string_opt s with
  | Some i when i >= 0 -> n_of_int i
  | _ ->
    (* big: process decimal digits with N arithmetic *)
    let ten = n_of_int 10 in
    let acc = ref N0 in
    String.iter (fun ch ->
        let d = Char.code ch - 48 in
        acc := N.add (N.mul !acc ten) (n_of_int d)) s;
    !acc

let rec int_of_pos (p : positive) : int =
  match p with XH -> 1 | XO q -> 2 * int_of_pos q | XI q -> 2 * int_of_pos q + 1

let rec string_of_n (x : n) : string =
  match x with
  | N0 -> "0"
  | Npos p ->
    (* may exceed max_int only for absurd values; guard *)
    let rec bits p acc = match p with XH -> acc + 1 | XO q | XI q -> bits q (acc + 1) in
    if bits p 0 <= 61 then string_of_int (int_of_pos p)
    else
      let ten = n_of_int 10 in
      let q = N.div x ten and r = N.modulo x ten in
      string_of_n q ^ string_of_n r

let rec list_of_array a i acc = if i < 0 then acc else list_of_array a (i - 1) (a.(i) :: acc)

let () =
  let ic = if Array.length Sys.argv > 1 then open_in Sys.argv.(1) else stdin in
  let oc = if Array.length Sys.argv > 2 then open_out Sys.argv.(2) else stdout in
  (try
     while true do
       let line = input_line ic in
       match String.index_opt line ' ' with
       | None -> ()
       | Some i ->
         let id = String.sub line 0 i in
         let rest = String.sub line (i + 1) (String.length line - i - 1) in
         let toks = List.filter (fun s -> s <> "") (String.split_on_char ' ' rest) in
         let ns = List.map n_of_string toks in
         let out = (try run_case ns with Stack_overflow -> [n_of_int 8]) in
         output_string oc id;
         List.iter (fun x -> output_char oc ' '; output_string oc (string_of_n x)) out;
         output_char oc '\n'
     done
   with End_of_file -> ());
  close_out oc
